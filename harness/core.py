"""Shared check runner: streams of cases -> implementation run + direct oracle + Coq correspondence batches.

See DESIGN.md section 3.  A property module (harness/props/cXX.py) exposes

    PROPERTY = "C06"
    def streams(tier) -> list[Stream]
    def tables(run) -> list[(filename, coq_text)]          # optional: generated-table theorems (section 3.2 step 2)
    ASSUMPTIONS = [...]                                    # optional: strings for the evidence file

Every random choice derives from one `random.Random(seed)`; PYTHONHASHSEED is pinned by ./check.
"""
from __future__ import annotations

import hashlib
import json
import os
import random
import re
import shutil
import subprocess
import sys
import time
import traceback
from dataclasses import dataclass, field
from typing import Any, Callable, Optional

VERIF = os.path.dirname(os.path.dirname(os.path.abspath(__file__)))
COQ = os.path.join(VERIF, "coq")
# generated case/table files of one run live in their own directory, so that concurrent runs (two properties, or the
# same property against a scratch tree) never overwrite each other's files
GEN = os.path.join(COQ, "generated", os.environ.get("VERIF_GEN_SUBDIR", "main"))
EVIDENCE_DIR = os.environ.get("VERIF_EVIDENCE_DIR", os.path.join(VERIF, "evidence"))
COQC = ["coqc", "-q", "-Q", os.path.join(COQ, "theories"), "Viv", "-Q", os.path.join(COQ, "props"), "VivProps",
        "-Q", GEN, "VivGen"]
BATCH = 300  # cases per generated file


# --------------------------------------------------------------------------------------------------------------
# Coq literal helpers
# --------------------------------------------------------------------------------------------------------------
def cz(n) -> str:
    """A Z literal."""
    n = int(n)
    return f"({n})%Z" if n < 0 else f"{n}%Z"


def cnat(n) -> str:
    n = int(n)
    assert 0 <= n < 5000, "nat literal too large"
    return f"{n}%nat"


def cbool(b) -> str:
    return "true" if b else "false"


def clist(items) -> str:
    items = list(items)
    return "[" + "; ".join(items) + "]" if items else "[]"


def czlist(ns) -> str:
    return clist(cz(n) for n in ns)


def copt(x, f=lambda s: s) -> str:
    return "None" if x is None else f"(Some {f(x)})"


def cpair(*xs) -> str:
    return "(" + ", ".join(xs) + ")"


# --------------------------------------------------------------------------------------------------------------
# Source fingerprints: the anchored files of each property (properties.jsonl) are hashed (AST, docstrings dropped) and
# compared with harness/fingerprints.json, recorded when the models were last reviewed against the code.  A difference
# is NOT a violation (a harmless rewrite changes it too); it only tells the run that the hand-written model may no
# longer describe the code, so the sampled part of the tie is deepened (more generated cases) before a verdict.
# --------------------------------------------------------------------------------------------------------------
def _repo_src():
    return os.environ.get("VERIF_REPO_SRC", "/repo/src")


def _ast_hash(path):
    import ast
    import warnings
    try:
        with warnings.catch_warnings():
            warnings.simplefilter("ignore")
            tree = ast.parse(open(path).read())
    except Exception as e:
        return f"unparsable:{type(e).__name__}"
    for node in ast.walk(tree):
        if isinstance(node, (ast.FunctionDef, ast.AsyncFunctionDef, ast.ClassDef, ast.Module)):
            b = node.body
            if b and isinstance(b[0], ast.Expr) and isinstance(getattr(b[0], "value", None), ast.Constant) \
                    and isinstance(b[0].value.value, str):
                node.body = b[1:] or [ast.Pass()]
    return hashlib.sha1(ast.dump(tree).encode()).hexdigest()[:16]


def anchored_files(prop):
    for l in open(os.path.join(VERIF, "properties.jsonl")):
        d = json.loads(l)
        if d["id"] == prop:
            return [f for f in d.get("anchors", {}).get("files", []) if f.endswith(".py")]
    return []


def source_fingerprint(prop):
    root = os.path.dirname(_repo_src())          # anchors are relative to the repository root ("src/vivarium/...")
    return {f: _ast_hash(os.path.join(root, f)) for f in anchored_files(prop)}


def all_source_fingerprint():
    """Every .py file of the package (relative to the repository root), same hash as for the anchored files."""
    root = os.path.dirname(_repo_src())
    out = {}
    for dp, dn, fn in os.walk(os.path.join(_repo_src(), "vivarium")):
        dn[:] = [d for d in dn if d != "__pycache__"]
        for f in fn:
            if f.endswith(".py") and f != "_version.py":
                full = os.path.join(dp, f)
                out[os.path.relpath(full, root)] = _ast_hash(full)
    return out


def recorded_fingerprint(prop):
    p = os.path.join(VERIF, "harness", "fingerprints.json")
    if not os.path.exists(p):
        return None
    return json.load(open(p)).get(prop)


ESCALATE = 6   # factor on the quick tier's generated cases when the anchored source differs from the reviewed one
ESCALATE_ELSEWHERE = 3   # ... when only files outside the property's anchors differ (collaborators, callers, utilities)


# --------------------------------------------------------------------------------------------------------------
@dataclass
class Result:
    """Outcome of running one case on the implementation.

    ok/msg : verdict of the *direct oracle* (the property statement evaluated on the implementation's observation)
    coq    : Gallina term of the stream's case type (inputs + the implementation's observation), or None if the case
             is outside the model's domain (counted as skipped)
    key    : hashable identifying the case up to what makes it distinct; None = trivial case
    obs    : JSON-able observation (for samples / replays)
    finding: id of a known finding this failing case belongs to (set by the module's matcher), else None
    """
    ok: bool = True
    msg: str = ""
    coq: Optional[str] = None
    key: Any = None
    obs: Any = None
    tags: tuple = ()


@dataclass
class Stream:
    name: str
    imports: str                  # e.g. "From Viv Require Import Common Lifecycle."
    check: str                    # Coq function : case -> bool
    gen: Callable[[random.Random], Any]       # -> JSON-able case
    run: Callable[[Any], Result]
    n_quick: int = 100
    n_thorough: int = 1000
    corpus: Callable[[], list] = lambda: []
    exhaustive: Optional[Callable[[], list]] = None   # if given: the complete finite list of cases (no sampling)
    finding_of: Callable[[Any, Result], Optional[str]] = lambda case, res: None
    doc: str = ""
    # optional: smaller variants of a failing case (drop an operation, halve a list, lower a count ...); used only after a
    # violation has been found, to hand back a minimal replay (DESIGN.md section 6 step 1)
    shrink: Optional[Callable[[Any], Any]] = None


class CheckRun:
    def __init__(self, prop: str, tier: str, seed: int):
        self.prop, self.tier, self.seed = prop, tier, seed
        self.t0 = time.time()
        self.rng = random.Random(seed)
        self.obligations = 0
        self.discharged = 0
        self.obligation_log = []      # (name, ok, detail)
        self.evals = 0
        self.keys = set()
        self.samples = []
        self.hist = {}
        self.skipped = 0
        self.oracle_failures = []     # (stream, case, Result)
        self.corr_failures = []       # (stream, case, Result)
        self.known = []               # (finding id, text)
        self.assumptions_out = {}     # theorem -> Print Assumptions text
        self.notes = []
        self.exhaustive = None
        os.makedirs(GEN, exist_ok=True)
        fp, rec = source_fingerprint(prop), recorded_fingerprint(prop)
        self.changed_files = sorted(f for f in fp if rec is None or rec.get(f) != fp[f])
        self.escalate = ESCALATE if (self.changed_files and rec is not None) else 0
        allrec = recorded_fingerprint("_all")
        self.changed_elsewhere = []
        if allrec is not None:
            allfp = all_source_fingerprint()
            self.changed_elsewhere = sorted(f for f in set(allfp) | set(allrec) if allfp.get(f) != allrec.get(f) and f not in fp)
        if os.environ.get("VERIF_ESCALATE"):
            self.escalate = int(os.environ["VERIF_ESCALATE"])
        elif not self.escalate and self.changed_elsewhere:
            self.escalate = ESCALATE_ELSEWHERE
        if self.escalate:
            self.notes.append("package source differs from the fingerprint recorded when the models were reviewed "
                              f"(anchored: {', '.join(self.changed_files) or '-'}; elsewhere: {', '.join(self.changed_elsewhere) or '-'}): "
                              f"generated cases x{self.escalate} (capped at the thorough count)")

    # ---- Coq -------------------------------------------------------------------------------------------
    def coqc(self, path: str, timeout=600):
        p = subprocess.run(["timeout", str(timeout)] + COQC + [path], capture_output=True, text=True, cwd=COQ)
        return p.returncode, p.stdout, p.stderr

    def make(self):
        """Full .vo build of the hand-written development (incremental)."""
        if os.environ.get("VERIF_SKIP_MAKE"):   # builders' convenience only; registered commands never set it
            self.notes.append("VERIF_SKIP_MAKE set: `make` skipped (development run, not evidence)")
            return True
        p = subprocess.run(["timeout", "1800", "make", "-C", COQ, "-j16", f"prop-{self.prop}"], capture_output=True, text=True)
        ok = p.returncode == 0
        self.obligation("make coq (hand-written models, lemmas, property theorems)", ok, (p.stdout + p.stderr)[-3000:])
        return ok

    def obligation(self, name, ok, detail=""):
        self.obligations += 1
        if ok:
            self.discharged += 1
        self.obligation_log.append((name, bool(ok), detail if not ok else ""))

    def check_props_file(self):
        """Re-check coq/props/<prop>.v now and record `Print Assumptions` per theorem."""
        path = os.path.join(COQ, "props", f"{self.prop}.v")
        if not os.path.exists(path):
            self.obligation(f"props/{self.prop}.v exists", False, "missing")
            return
        src = open(path).read()
        thms = re.findall(r"^\s*(?:Theorem|Lemma|Corollary)\s+([A-Za-z0-9_']+)", src, re.M)
        rc, out, errtxt = self.coqc(path)
        # split Print Assumptions output by order of appearance
        chunks = re.split(r"(?=Closed under the global context|Axioms:)", out)
        pa = [c.strip() for c in chunks if c.startswith("Closed under") or c.startswith("Axioms:")]
        printed = re.findall(r"Print Assumptions\s+([A-Za-z0-9_']+)", src)
        for i, t in enumerate(printed):
            self.assumptions_out[t] = pa[i] if i < len(pa) else "?"
        for t in thms:
            self.obligation(f"theorem {t} (coq/props/{self.prop}.v)", rc == 0, errtxt[-2000:])
        if not thms:
            self.obligation(f"props/{self.prop}.v has theorems", False, "none")
        # every property theorem must be followed by Print Assumptions and must be closed under the global context
        # (no axiom declared here; standard-library axioms would have to be named in the trusted base first)
        if rc == 0:
            missing = [t for t in thms if t not in printed]
            open_ = {t: a for t, a in self.assumptions_out.items() if t in printed and not a.startswith("Closed under the global context")}
            self.obligation(f"Print Assumptions: all {len(thms)} theorems of props/{self.prop}.v closed under the global context",
                            not missing and not open_, f"without Print Assumptions: {missing}; not closed: {open_}")

    def generated_theorems(self, fname: str, text: str):
        """Write generated/<fname> (tables read off the live code + theorems about them) and compile it."""
        path = os.path.join(GEN, fname)
        with open(path, "w") as f:
            f.write(text)
        thms = re.findall(r"^\s*(?:Theorem|Lemma|Example)\s+([A-Za-z0-9_']+)", text, re.M)
        rc, out, errtxt = self.coqc(path)
        for t in thms:
            self.obligation(f"generated-table theorem {t} ({fname})", rc == 0, (out + errtxt)[-2500:])
        chunks = re.split(r"(?=Closed under the global context|Axioms:)", out)
        pa = [c.strip() for c in chunks if c.startswith("Closed under") or c.startswith("Axioms:")]
        printed = re.findall(r"Print Assumptions\s+([A-Za-z0-9_']+)", text)
        for i, t in enumerate(printed):
            self.assumptions_out[t] = pa[i] if i < len(pa) else "?"
        return rc == 0, out, errtxt

    def coqchk(self):
        """Thorough tier: re-check the property's compiled closure with the independent checker and record its axiom report."""
        p = subprocess.run(["timeout", "1500", "coqchk", "-silent", "-o", "-Q", "theories", "Viv", "-Q", "props", "VivProps",
                            f"VivProps.{self.prop}"], capture_output=True, text=True, cwd=COQ)
        txt = (p.stdout + p.stderr)
        summary = txt[txt.find("CONTEXT SUMMARY"):][:1500] if "CONTEXT SUMMARY" in txt else txt[-1500:]
        self.assumptions_out["coqchk -o (closure of props/%s.vo)" % self.prop] = " ".join(summary.split())
        self.obligation(f"coqchk -o VivProps.{self.prop} (independent re-check of the .vo closure)", p.returncode == 0, txt[-1500:])

    # ---- streams ---------------------------------------------------------------------------------------
    def run_stream(self, s: Stream):
        cases = []
        for c in s.corpus():
            cases.append(("corpus", c))
        # regression corpus kept as files: corpus/<PROP>/auto_<stream>_*.json (a replay file, or {"case": ...}); these are
        # past failures of this stream (found by a thorough run, a seeded change, ...) and always run first
        import glob
        for f in sorted(glob.glob(os.path.join(VERIF, "corpus", self.prop, f"auto_{s.name}_*.json"))):
            try:
                cases.append(("corpus-file", json.load(open(f))["case"]))
            except Exception as e:
                self.notes.append(f"unreadable corpus file {f}: {e}")
        if s.exhaustive is not None:
            for c in s.exhaustive():
                cases.append(("exhaustive", c))
            if self.exhaustive is None:
                self.exhaustive = True
        else:
            self.exhaustive = False
            n = s.n_quick if self.tier == "quick" else s.n_thorough
            if self.tier == "quick" and self.escalate:
                n = max(n, min(s.n_quick * self.escalate, s.n_thorough))
            rng = random.Random(self.rng.getrandbits(64))
            for _ in range(n):
                cases.append(("gen", s.gen(rng)))
        results = []
        for origin, case in cases:
            try:
                r = s.run(case)
            except Exception as e:  # harness error: fail closed (a check must not silently pass)
                r = Result(ok=False, msg=f"harness exception: {type(e).__name__}: {e}\n{traceback.format_exc()[-1500:]}")
            self.evals += 1
            for t in r.tags:
                self.hist[f"{s.name}:{t}"] = self.hist.get(f"{s.name}:{t}", 0) + 1
            if r.key is not None:
                self.keys.add((s.name, _h(r.key)))
            if len([x for x in self.samples if x["stream"] == s.name]) < 2 and r.key is not None:
                self.samples.append({"stream": s.name, "origin": origin, "case": _clip(case), "observed": _clip(r.obs)})
            if not r.ok:
                fid = s.finding_of(case, r)
                if fid and is_open_finding(self.prop, fid):
                    self.known.append((fid, r.msg))
                else:
                    self.oracle_failures.append((s.name, case, r))
            results.append((case, r))
        # correspondence batches
        coqable = [(case, r) for case, r in results if r.coq is not None]
        self.skipped += len(results) - len(coqable)
        files = []
        for k in range(0, len(coqable), BATCH):
            chunk = coqable[k:k + BATCH]
            fname = f"cases_{self.prop}_{s.name}_{k // BATCH}.v"
            body = [s.imports, "Local Open Scope Z_scope.",
                    # the list literal is elaborated against the domain of the check function, so that a batch whose
                    # cases all contain un-annotated `[]` / `None` still type-checks (this once caused false alarms)
                    "Definition typed_cases_ {A : Type} (f : A -> bool) (l : list A) : list A := l.",
                    f"Definition cases := typed_cases_ {s.check} " + clist("\n  " + r.coq for _, r in chunk) + ".",
                    f"Definition failing := failing_cases {s.check} cases.",
                    "Eval vm_compute in failing.",
                    f"Example corr_{self.prop}_{s.name}_{k // BATCH} : forallb {s.check} cases = true.",
                    "Proof. vm_compute. reflexivity. Qed.", ""]
            path = os.path.join(GEN, fname)
            with open(path, "w") as f:
                f.write("\n".join(body))
            files.append((fname, path, chunk))
        procs = []
        for fname, path, chunk in files:
            procs.append((fname, chunk, subprocess.Popen(["timeout", "900"] + COQC + [path], stdout=subprocess.PIPE,
                                                         stderr=subprocess.PIPE, text=True, cwd=COQ)))
            if len(procs) % 16 == 0:
                for _, _, p in procs:
                    p.wait()
        for fname, chunk, p in procs:
            out, errtxt = p.communicate()
            m = re.search(r"=\s*(\[.*?\])\s*:\s*list nat", out, re.S)
            ok = p.returncode == 0
            self.obligation(f"correspondence batch {fname} ({len(chunk)} cases): forallb {s.check} cases = true", ok,
                            (out + errtxt)[-1500:])
            if not ok:
                idx = [int(x) for x in re.findall(r"\d+", m.group(1))] if m else list(range(len(chunk)))
                if m is None:
                    self.notes.append(f"{fname}: coqc failed without a parsable failing list: {errtxt[-400:]}")
                for i in idx:
                    if i < len(chunk):
                        case, r = chunk[i]
                        fid = s.finding_of(case, r)
                        if fid and is_open_finding(self.prop, fid):
                            self.known.append((fid, "model/implementation disagreement on a listed finding"))
                        else:
                            self.corr_failures.append((s.name, case, r))
        return results

    # ---- verdict ---------------------------------------------------------------------------------------
    def finish(self, module, level_note=""):
        wall = time.time() - self.t0
        violations = 0
        lines = []
        os.makedirs(os.path.join(VERIF, "replays"), exist_ok=True)
        seen_known = set()
        for fid, txt in self.known:
            if fid not in seen_known:
                seen_known.add(fid)
                lines.append(f"KNOWN-FINDING: property={self.prop} {fid}: {finding_text(self.prop, fid)}")
        broken_obl = [(n, d) for n, ok, d in self.obligation_log if not ok]
        if self.oracle_failures:
            sname, case, r = self.oracle_failures[0]
            case, r = self._shrink(module, sname, case, r)
            path = self._replay("input", sname, case, r, None)
            lines.append(f"VIOLATION property={self.prop} replay={path}")
            violations = len(self.oracle_failures)
        elif self.corr_failures or broken_obl:
            # a tie broke but the direct oracle found no failing input among the explored cases
            if self.corr_failures:
                sname, case, r = self.corr_failures[0]
                path = self._replay("obligation", sname, case, r,
                                    f"correspondence {self.prop}/{sname}: model and implementation disagree on this case; "
                                    f"direct oracle found no property failure in {self.evals} cases")
            else:
                n, d = broken_obl[0]
                path = self._replay("obligation", None, None, None, f"{n}\n{d}")
            lines.append(f"VIOLATION property={self.prop} replay={path} no-failing-input-found")
            violations = max(1, len(self.corr_failures))
        ev = {
            "property_id": self.prop, "tier": self.tier, "seed": self.seed, "level": "proof",
            "coverage": {
                "obligations": self.obligations, "discharged": self.discharged,
                "checker_cmd": "coqc 8.16.1 (full .vo build via `make -C /verif/coq`, then coqc on coq/props/%s.v and on every "
                               "generated/*.v of this run; vm_compute used for case evaluation)" % self.prop,
                "trusted_base": TRUSTED_BASE + list(getattr(module, "TRUSTED", [])),
                "evaluations": self.evals, "distinct_nontrivial": len(self.keys),
                "rule": getattr(module, "RULE", "cases from the per-stream generators seeded by VERIF_SEED (corpus first); "
                                                "distinct = distinct canonical key; trivial cases carry no key"),
                "samples": self.samples[:8],
                "exhaustive": bool(self.exhaustive),
                "input_distribution": dict(sorted(self.hist.items())),
                "cases_outside_model_domain_skipped": self.skipped,
                "print_assumptions": self.assumptions_out,
                "obligation_log": [{"name": n, "ok": ok, **({"detail": d[-600:]} if d else {})} for n, ok, d in self.obligation_log],
                "known_findings_reproduced": sorted(seen_known),
                "anchored_source_changed_since_review": self.changed_files,
                "other_source_changed_since_review": self.changed_elsewhere,
                "notes": self.notes,
            },
            "assumptions": list(getattr(module, "ASSUMPTIONS", [])),
            "wall_s": round(wall, 2), "violations": violations,
        }
        if level_note:
            ev["coverage"]["level_note"] = level_note
        os.makedirs(EVIDENCE_DIR, exist_ok=True)
        with open(os.path.join(EVIDENCE_DIR, f"{self.prop}.json"), "w") as f:
            json.dump(ev, f, indent=1, default=str)
        for l in lines:
            print(l)
        print(f"[{self.prop}] tier={self.tier} seed={self.seed} evals={self.evals} distinct={len(self.keys)} "
              f"obligations={self.discharged}/{self.obligations} known={len(seen_known)} violations={violations} "
              f"wall={wall:.1f}s")
        return 1 if violations else 0

    def _shrink(self, module, sname, case, r, budget_s=60, max_tries=200):
        """Greedy delta-debugging on the first failing case: keep any smaller variant on which the direct oracle still
        fails (and which is not merely a listed finding).  Bounded; never runs on a clean tree."""
        try:
            stream = [s for s in module.streams(self.tier) if s.name == sname][0]
        except Exception:
            return case, r
        if stream.shrink is None:
            return case, r
        t0, tries, steps = time.time(), 0, 0
        improved = True
        while improved and time.time() - t0 < budget_s and tries < max_tries:
            improved = False
            try:
                candidates = list(stream.shrink(case))
            except Exception:
                break
            for c in candidates:
                tries += 1
                if time.time() - t0 > budget_s or tries > max_tries:
                    break
                try:
                    rc = stream.run(c)
                except Exception:
                    continue
                fid = stream.finding_of(c, rc)
                if not rc.ok and not (fid and is_open_finding(self.prop, fid)):
                    case, r, improved, steps = c, rc, True, steps + 1
                    break
        if steps:
            self.notes.append(f"replay minimised by {steps} shrinking steps ({tries} oracle runs)")
        return case, r

    def _replay(self, kind, sname, case, r, obligation):
        d = {"property": self.prop, "kind": kind, "seed": self.seed, "tier": self.tier, "stream": sname, "case": case,
             "observed": r.obs if r else None, "oracle_verdict": (r.msg if r else None), "coq_obligation": obligation}
        h = hashlib.sha1(json.dumps(d, sort_keys=True, default=str).encode()).hexdigest()[:10]
        path = os.path.join(VERIF, "replays", f"{self.prop}_{kind}_{h}.json")
        with open(path, "w") as f:
            json.dump(d, f, indent=1, default=str)
        return path


TRUSTED_BASE = [
    "Coq 8.16.1 kernel incl. the vm_compute virtual machine (no native_compute); coqc full .vo builds",
    "no axioms declared; Print Assumptions per theorem is recorded under coverage.print_assumptions",
    "hand-written Gallina models transcribe the Python (modelled, not verified) - tied to /repo/src by this run's "
    "correspondence batches (sampled unless coverage.exhaustive) and generated tables",
    "python harness: boot shim, generators, probe components, canonicalisation, exception->enum map, Coq literal emitter, "
    "parser of `failing` lists",
    "library behaviour (pandas 3.0.6, numpy 1.26.4, networkx, layered_config_tree, PyTables, dill, CPython 3.12) as "
    "transcribed into the models; validated on the explored cases only",
]


def _h(x):
    return hashlib.sha1(json.dumps(x, sort_keys=True, default=str).encode()).hexdigest()


def _clip(x, n=1500):
    s = json.dumps(x, default=str)
    if len(s) <= n:
        return x
    return s[:n] + "...(clipped)"


# --------------------------------------------------------------------------------------------------------------
# known findings (committed file; never written at run time)
# --------------------------------------------------------------------------------------------------------------
def _findings():
    p = os.path.join(VERIF, "known_findings.json")
    if not os.path.exists(p):
        return []
    return json.load(open(p)).get("findings", [])


def is_open_finding(prop, fid):
    return any(f["id"] == fid and prop in f["properties"] and f["status"] == "open" for f in _findings())


def finding_text(prop, fid):
    for f in _findings():
        if f["id"] == fid:
            return f["what"]
    return ""


# --------------------------------------------------------------------------------------------------------------
def main_for(module, argv):
    import argparse
    ap = argparse.ArgumentParser()
    ap.add_argument("--tier", default=os.environ.get("VERIF_TIER", "quick"))
    ap.add_argument("--replay", default=None)
    a = ap.parse_args(argv)
    seed = int(os.environ.get("VERIF_SEED", "20260926"))
    tier = a.tier if a.tier in ("quick", "thorough") else "quick"
    if a.replay:
        d = json.load(open(a.replay))
        if d.get("kind") == "obligation" and d.get("case") is None:
            print("replay of a bare proof obligation: re-running the whole quick check")
        else:
            for s in module.streams(tier):
                if s.name == d["stream"]:
                    r = s.run(d["case"])
                    print(json.dumps({"ok": r.ok, "msg": r.msg, "observed": _clip(r.obs)}, indent=1, default=str))
                    if not r.ok:
                        fid = s.finding_of(d["case"], r)
                        if fid and is_open_finding(module.PROPERTY, fid):   # a listed finding: reported, not an alarm
                            print(f"KNOWN-FINDING: property={module.PROPERTY} {fid}: {finding_text(module.PROPERTY, fid)}")
                            return 0
                        print(f"VIOLATION property={module.PROPERTY} replay={a.replay}")
                        return 1
                    if d.get("kind") == "input":
                        return 0
            # obligation replays (model/impl disagreement): fall through to the quick check
    run = CheckRun(module.PROPERTY, tier, seed)
    if run.make():
        run.check_props_file()
        if hasattr(module, "tables"):
            try:
                for fname, text in module.tables(run):
                    run.generated_theorems(fname, text)
            except Exception as e:
                run.obligation("generated tables", False, f"{type(e).__name__}: {e}\n{traceback.format_exc()[-1500:]}")
        for s in module.streams(tier):
            run.run_stream(s)
        if hasattr(module, "extra"):
            module.extra(run)
        if tier == "thorough" and not os.environ.get("VERIF_SKIP_COQCHK"):
            run.coqchk()
    return run.finish(module, getattr(module, "LEVEL_NOTE", ""))
