"""Sub-process entry point for the C01 / C18 differentials:  python probes_worker.py   (job as JSON on stdin).

The parent chooses PYTHONHASHSEED (and passes VERIF_REPO_SRC through); this file only imports `probes` (never defines
component classes itself, so that dill pickles them as `probes.X`).  Output: one line `@@RESULT@@ <json>` on stdout.

jobs:  {"mode": "envs",   "program": P, "envs": [env, ...]}          run P under each env, in this order, in THIS process
       {"mode": "multi",  "items": [{"program": P, "envs": [...]}, ...]}   the same for several programs in a row
       {"mode": "backup", "program": P, "dir": D}                    reference run, then a run writing D/k.pkl at every k
       {"mode": "resume", "program": P, "path": F, "env": env}       dill.load(F) and continue to the end
"""
import json
import os
import sys
import traceback

sys.path.insert(0, os.path.dirname(os.path.abspath(__file__)))
sys.dont_write_bytecode = True


def main():
    job = json.loads(sys.stdin.read())
    import probes
    res = {"hashseed": os.environ.get("PYTHONHASHSEED"), "pid": os.getpid()}
    try:
        if job["mode"] == "envs":
            outs = []
            for env in job["envs"]:
                try:
                    outs.append(probes.run_program(job["program"], env))
                except BaseException as e:      # noqa: B902  (AssertionError from run_until included)
                    outs.append({"error": f"{type(e).__name__}: {e}", "tb": traceback.format_exc()[-1500:]})
            res["outs"] = outs
        elif job["mode"] == "multi":
            # several programs, one after another, in THIS process (sub-process start-up dominates the cost); a later
            # program therefore also has the earlier ones as prior process history
            multi = []
            for item in job["items"]:
                outs = []
                for env in item["envs"]:
                    try:
                        outs.append(probes.run_program(item["program"], env))
                    except BaseException as e:      # noqa: B902
                        outs.append({"error": f"{type(e).__name__}: {e}", "tb": traceback.format_exc()[-1500:]})
                multi.append(outs)
            res["multi"] = multi
        elif job["mode"] == "backup":
            res["reference"] = probes.run_program(job["program"], {"driver": "manual"})
            res["with_backups"] = probes.run_program(job["program"], {"driver": "manual"}, backup_dir=job["dir"])
        elif job["mode"] == "resume":
            res["out"] = probes.resume_program(job["path"], job["program"], job.get("env", {}))
        else:
            res["error"] = "unknown mode"
    except BaseException as e:                  # noqa: B902
        res["error"] = f"{type(e).__name__}: {e}"
        res["tb"] = traceback.format_exc()[-2500:]
    sys.stdout.write("\n@@RESULT@@ " + json.dumps(res) + "\n")


if __name__ == "__main__":
    main()
