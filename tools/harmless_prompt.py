#!/usr/bin/env python3
"""Prompt for an independent sub-agent that writes a BEHAVIOUR-PRESERVING refactoring (property still holds)."""
import json, os, sys
HERE = os.path.dirname(os.path.dirname(os.path.abspath(__file__)))
pid, wt = sys.argv[1], sys.argv[2]
p = [json.loads(l) for l in open(os.path.join(HERE, "properties.jsonl")) if json.loads(l)["id"] == pid][0]
print(f"""You are helping to test a regression-detection tool for the Python package ihmeuw/vivarium for FALSE ALARMS.

Work ONLY inside your own scratch git worktree of the repository: {wt}  (source under {wt}/src/vivarium, version 3.0.10).
Never read, list or touch /verif or /repo. No network. Never use `git stash`. An unchanged copy of the source is at
{wt}/PRISTINE/src.

THE PROPERTY (id {pid}) the tool checks, as a JSON record:
{json.dumps(p, indent=1)}

TASK: produce ONE realistic, NON-TRIVIAL refactoring of the code this property is anchored in (the files under
anchors.files, chiefly the functions named under anchors.mechanism) that a maintainer could plausibly commit and that
PRESERVES the property and all externally observable behaviour the property talks about. It should be the kind of change
that could trip up a brittle checker while being semantically harmless, for example (combine two or three):
  - restructure a loop / comprehension / vectorised expression into an equivalent form; split or merge helper functions;
  - rename private attributes, private helper functions, local variables; change internal data structures (list <-> dict,
    tuple <-> dataclass) without changing results;
  - reorder independent statements or independent checks whose order is not observable; change error MESSAGES (not error
    classes); add logging/debug statements; add type annotations / assertions that always hold;
  - where the property explicitly leaves something unspecified (order among equal priorities, which valid topological order,
    column order of a table, tie order), change that unspecified choice to another valid one.
Do NOT change any public signature, exception class, return value, or anything the property statement constrains.
Aim for 20-80 changed lines.

ENVIRONMENT: Python /venv/bin/python (3.12, pandas 3.0.6, numpy 1.26.4). `import vivarium` normally resolves to an installed
wheel (4.1.6), NOT your worktree. To run YOUR worktree's source start scripts with:
    import sys, types
    sys.path.insert(0, "{wt}/src")
    m = types.ModuleType("vivarium._version"); m.__version__ = "0+x"; m.version = "0+x"; sys.modules["vivarium._version"] = m
    import vivarium; assert vivarium.__file__.startswith("{wt}/src")
Never run python with the cwd inside src/vivarium. Run the worktree's own tests against your worktree source and make sure
your change adds no failures compared with {wt}/PRISTINE/src (some tests fail on both because of pandas-3 incompatibilities):
    cd {wt} && /venv/bin/python -c "import sys,types; sys.path.insert(0,'<SRC>'); m=types.ModuleType('vivarium._version'); m.__version__='0+x'; m.version='0+x'; sys.modules['vivarium._version']=m; import pytest; sys.exit(pytest.main(['-q','-p','no:cacheprovider','tests/framework','tests/interface']))"

DELIVERABLES in {wt}/SEED/ :
 * patch.diff  - `git -C {wt} diff -- src` (source only; do not commit)
 * demo.py     - a script taking the source root as argv[1] that exercises the property thoroughly through public behaviour
                 (many generated inputs/histories, boundary cases) and exits 0 iff the property holds; it must exit 0 BOTH on
                 {wt}/PRISTINE/src and on your changed {wt}/src
 * meta.json   - {{"property": "{pid}", "kind": "harmless", "summary": "...", "why_behaviour_preserving": "...",
                 "files_changed": [...], "tests_run": "..."}}
Leave the change applied. Final message: what you changed, why it cannot affect the property, commands run and outcomes.""")
