#!/usr/bin/env python3
"""Run every claimed check (quick or thorough) in parallel and summarise; validates MANIFEST and evidence files.
usage: tools/runall.py [--tier quick|thorough] [-j N] [--only C01,C02] [--seed N]"""
import json, os, subprocess, sys, time
from concurrent.futures import ThreadPoolExecutor
HERE = os.path.dirname(os.path.dirname(os.path.abspath(__file__)))
args = sys.argv[1:]
tier = args[args.index("--tier") + 1] if "--tier" in args else "quick"
jobs = int(args[args.index("-j") + 1]) if "-j" in args else 4
only = args[args.index("--only") + 1].split(",") if "--only" in args else None
seed = args[args.index("--seed") + 1] if "--seed" in args else None
man = json.load(open(os.path.join(HERE, "MANIFEST.json")))
def validate(inst, schema):
    r = subprocess.run(["python3-vt", "-c", "import json,sys,jsonschema; jsonschema.validate(json.load(open(sys.argv[1])), json.load(open(sys.argv[2])))", inst, schema],
                       capture_output=True, text=True)
    return r.returncode == 0, r.stderr[-300:]
ok, err = validate(os.path.join(HERE, "MANIFEST.json"), "/root/.vp/MANIFEST.schema.json")
print("MANIFEST valid:", ok, err if not ok else "")
def run(c):
    pid = c["property_id"]
    cmd = c["quick_cmd"] if tier == "quick" else c.get("thorough_cmd", c["quick_cmd"])
    env = dict(os.environ, VERIF_GEN_SUBDIR=f"all_{pid}")
    if seed: env["VERIF_SEED"] = seed
    ev = os.path.join(HERE, c["evidence_file"])
    if os.path.exists(ev): os.remove(ev)
    t0 = time.time()
    r = subprocess.run(cmd, shell=True, cwd=HERE, capture_output=True, text=True, env=env)
    lines = [l for l in r.stdout.splitlines() if l.startswith(("VIOLATION", "KNOWN-FINDING", "["))]
    evok, everr = (validate(ev, "/root/.vp/EVIDENCE.schema.json") if os.path.exists(ev) else (False, "missing"))
    return pid, r.returncode, round(time.time() - t0, 1), evok, everr, lines, r.stderr[-300:] if r.returncode not in (0, 1) else ""
checks = [c for c in man["checks"] if not only or c["property_id"] in only]
bad = 0
with ThreadPoolExecutor(jobs) as ex:
    for pid, rc, wall, evok, everr, lines, errtail in ex.map(run, checks):
        flag = "OK " if rc == 0 and evok else "BAD"
        bad += flag == "BAD"
        print(f"{flag} {pid} exit={rc} wall={wall}s evidence_valid={evok} {everr if not evok else ''}")
        for l in lines: print("     ", l[:230])
        if errtail: print("      stderr:", errtail)
print("not claimed:", [x["property_id"] for x in man.get("not_applicable", [])])
sys.exit(1 if bad else 0)
