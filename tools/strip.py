import ast,sys
def strip(path):
    src=open(path).read()
    tree=ast.parse(src)
    lines=src.split('\n')
    kill=set()
    for node in ast.walk(tree):
        if isinstance(node,(ast.FunctionDef,ast.ClassDef,ast.Module)):
            b=node.body
            if b and isinstance(b[0],ast.Expr) and isinstance(getattr(b[0],'value',None),ast.Constant) and isinstance(b[0].value.value,str):
                for i in range(b[0].lineno-1,b[0].end_lineno): kill.add(i)
    for i,l in enumerate(lines):
        if i in kill or not l.strip() or l.strip().startswith('#'): continue
        print(f"{i+1:4d} {l}")
for p in sys.argv[1:]:
    print("=====",p); strip(p)
