#!/usr/bin/env python3
"""Run every kept seeded change against its property's check (scratch copy, VERIF_REPO_SRC) and tabulate.
usage: tools/seedmatrix.py [-j N] [--only C06_a,C07_b] [--tier quick]"""
import glob, json, os, subprocess, sys
from concurrent.futures import ThreadPoolExecutor
HERE = os.path.dirname(os.path.dirname(os.path.abspath(__file__)))
args = sys.argv[1:]
jobs = int(args[args.index("-j") + 1]) if "-j" in args else 4
only = args[args.index("--only") + 1].split(",") if "--only" in args else None
tier = args[args.index("--tier") + 1] if "--tier" in args else "quick"
man = json.load(open(os.path.join(HERE, "MANIFEST.json")))
claimed = {c["property_id"] for c in man["checks"]}
dirs = [d for d in sorted(glob.glob(os.path.join(HERE, "seeded", "*"))) if os.path.isdir(d) and (not only or os.path.basename(d) in only)]
def run(d):
    prop = json.load(open(os.path.join(d, "meta.json")))["property"]
    if prop not in claimed:
        return os.path.basename(d), {"skipped": f"{prop} not claimed yet"}
    r = subprocess.run([sys.executable, os.path.join(HERE, "tools", "seedtest.py"), d, "--tier", tier], capture_output=True, text=True)
    try:
        out = json.loads(r.stdout[r.stdout.index("{"):])
    except Exception:
        out = {"error": (r.stdout + r.stderr)[-400:]}
    json.dump(out, open(os.path.join(d, "result.json"), "w"), indent=1)
    return os.path.basename(d), out
with ThreadPoolExecutor(jobs) as ex:
    for name, out in ex.map(run, dirs):
        ck = [v for k, v in out.items() if k.startswith("check_")]
        if ck:
            verdict = (f"quiet={ck[0].get('quiet')}" if out.get("kind") == "harmless" else f"caught={ck[0]['caught']}")
            print(f"{name}: {out.get('kind')} confirmed={out.get('confirmed')} {verdict} wall={ck[0]['wall_s']}s :: {ck[0]['lines'][-1][:150] if ck[0]['lines'] else ''}")
        else:
            print(f"{name}: {out}")
