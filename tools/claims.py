# Per-property claims consumed by tools/mkmanifest.py
NOT_CLAIMED = {}
# properties whose builder-delivered check has been reviewed, run on the unchanged tree and against seeded changes by the
# orchestrator; only these are read from harness/props/cXX.py CLAIM dicts
INTEGRATED = {"C01", "C02", "C03", "C04", "C05", "C07", "C08", "C09", "C10", "C11", "C12", "C13", "C14", "C15", "C16", "C17", "C18", "C19", "C20"}
CLAIMED["C06"] = dict(
    technique="Coq proof (induction over add_phase/set_state/call histories) + theorems re-proved on tables generated from the live engine + exhaustive state x method correspondence",
    text="Machine-checked theorems over a Gallina model of lifecycle.py for ALL life cycles and ALL request/call sequences (links = declarative order, trace legality, refusals inert and deletable); engine-specific theorems (every context method atomic from every state, run = step^n for every n, events emitted in their own state, documented order) are re-proved on every run against scripts and phases recorded from the live engine; the model is tied to the code by an exhaustive 10 states x 13 methods table on real contexts plus generated life cycles/request sequences, agreement decided inside Coq by vm_compute.",
    note="Trusted: Coq kernel+vm_compute; the hand model of lifecycle.py; recording of set_state/emissions by harness wrappers; 'behaviour depends only on the life-cycle state' abstraction for the cell table. No axioms (Print Assumptions: closed).",
)
