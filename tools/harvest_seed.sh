#!/bin/bash
# usage: tools/harvest_seed.sh C16 a   -> copies /tmp/seed/C16/SEED to seeded/C16_a, confirms, removes the worktree
set -e
P=$1; TAG=$2; WT=${3:-/tmp/seed/$P}
D=/verif/seeded/${P}_${TAG}
mkdir -p $D
cp $WT/SEED/patch.diff $WT/SEED/demo.py $WT/SEED/meta.json $D/
# demos take the source root as argv[1]; make sure no worktree path is hard-coded
sed -i "s#$WT/PRISTINE/src#/repo/src#g; s#$WT/src#/repo/src#g" $D/demo.py
python3 /verif/tools/seedtest.py $D --checks "" 2>/dev/null | head -20 || true
git -C /repo worktree remove --force $WT && rm -rf $WT
