#!/usr/bin/env python3
"""Regenerate DESIGN.md section 12 (what was built, per property) from the property modules, props files and evidence."""
import ast, json, os, re
HERE = os.path.dirname(os.path.dirname(os.path.abspath(__file__)))
props = [json.loads(l) for l in open(os.path.join(HERE, "properties.jsonl"))]
def literal(tree, name):
    for node in tree.body:
        if isinstance(node, ast.Assign) and any(isinstance(t, ast.Name) and t.id == name for t in node.targets):
            try: return ast.literal_eval(node.value)
            except Exception: return None
    return None
out = ["## 12. As built (generated from `harness/props/cXX.py`, `coq/props/CXX.v` and the last evidence files)\n",
       "Section 5 is the plan; this section is what exists. Theorem names are those in `coq/props/CXX.v` (each followed there by",
       "`Print Assumptions`, all closed under the global context); `_refuted` / `_partial` suffixes mean what section 2.3 says.",
       "Streams are the correspondence streams of the check with their quick/thorough case counts.\n"]
for p in props:
    pid = p["id"]
    py = os.path.join(HERE, "harness", "props", pid.lower() + ".py")
    v = os.path.join(HERE, "coq", "props", pid + ".v")
    if not (os.path.exists(py) and os.path.exists(v)):
        out.append(f"### {pid} — not built\n"); continue
    src = open(py).read(); tree = ast.parse(src)
    claim = literal(tree, "CLAIM") or {}
    if pid == "C06" and not claim:
        ns = {"CLAIMED": {}, "NOT_CLAIMED": {}}; exec(open(os.path.join(HERE, "tools", "claims.py")).read(), ns); claim = ns["CLAIMED"].get("C06", {})
    assumptions = literal(tree, "ASSUMPTIONS") or []
    trusted = literal(tree, "TRUSTED") or []
    vs = open(v).read()
    thms = re.findall(r"^\s*(?:Theorem|Lemma|Corollary)\s+([A-Za-z0-9_']+)", vs, re.M)
    imports = sorted(set(re.findall(r"From Viv Require (?:Import|Export) ([^.]+)\.", vs)))
    mods = sorted({m for i in imports for m in i.split()})
    ev = {}
    try: ev = json.load(open(os.path.join(HERE, "evidence", pid + ".json")))
    except Exception: pass
    cov = ev.get("coverage", {})
    streams = {}
    for k, n in (cov.get("input_distribution") or {}).items():
        streams.setdefault(k.split(":")[0], 0)
    out.append(f"### {pid} — {p['title']}\n")
    out.append(f"* **Decided by:** {claim.get('technique', '')}")
    out.append(f"* **Assurance:** {claim.get('text', '')}")
    out.append(f"* **Trusted / assumed:** {claim.get('note', '')}")
    out.append(f"* **Model files:** " + ", ".join(f"`coq/theories/{m}.v`" for m in mods if m != "Common"))
    out.append(f"* **Theorems ({len(thms)}):** " + ", ".join(f"`{t}`" for t in thms))
    if cov:
        out.append(f"* **Last run ({ev.get('tier')}, seed {ev.get('seed')}):** {cov.get('discharged')}/{cov.get('obligations')} obligations, "
                   f"{cov.get('evaluations')} cases ({cov.get('distinct_nontrivial')} distinct non-trivial), streams: {', '.join(sorted(streams)) or '-'}; "
                   f"known findings reproduced: {', '.join(cov.get('known_findings_reproduced') or []) or 'none'}; {ev.get('wall_s')} s")
    if assumptions:
        out.append("* **Stated assumptions of the check:** " + " | ".join(" ".join(str(a).split()) for a in assumptions))
    if trusted:
        out.append("* **Additional trusted items:** " + " | ".join(" ".join(str(a).split()) for a in trusted))
    out.append("")
txt = "\n".join(out) + "\n"
pth = os.path.join(HERE, "DESIGN.md")
s = open(pth).read()
i = s.find("## 12. As built")
if i >= 0:
    j = s.find("\n## ", i + 5)
    s = s[:i] + txt + (s[j + 1:] if j >= 0 else "")
else:
    s = s.rstrip("\n") + "\n\n---------------------------------------------------------------------------------------------------\n\n" + txt
open(pth, "w").write(s)
print("ok", len(txt))
