#!/venv/bin/python
"""Record the AST fingerprints of every property's anchored files (run after reviewing models against /repo/src)."""
import json, os, sys
HERE = os.path.dirname(os.path.dirname(os.path.abspath(__file__)))
sys.path.insert(0, os.path.join(HERE, "harness"))
os.environ.pop("VERIF_REPO_SRC", None)
import core
out = {}
for l in open(os.path.join(HERE, "properties.jsonl")):
    pid = json.loads(l)["id"]
    out[pid] = core.source_fingerprint(pid)
out["_all"] = core.all_source_fingerprint()
json.dump(out, open(os.path.join(HERE, "harness", "fingerprints.json"), "w"), indent=1, sort_keys=True)
print("recorded", sum(len(v) for v in out.values()), "file fingerprints")
