#!/usr/bin/env python3
"""Confirm a seeded change and run our checks against it WITHOUT touching /repo.

usage: tools/seedtest.py <seeded-dir> [--checks C06,C08] [--tier quick] [--keep]
  1. copy /repo/src to a scratch tree, apply <seeded-dir>/patch.diff there
  2. demo.py on pristine /repo/src must exit 0; on the patched tree must exit 1
  3. run ./check <prop> with VERIF_REPO_SRC=<patched tree>/src and report whether it printed VIOLATION
(When no builder is active the same can be done on /repo itself: git -C /repo apply; ./check; git -C /repo checkout -- .)
"""
import json, os, shutil, subprocess, sys, tempfile, time
HERE = os.path.dirname(os.path.dirname(os.path.abspath(__file__)))
d = os.path.abspath(sys.argv[1])
args = sys.argv[2:]
meta = json.load(open(os.path.join(d, "meta.json")))
checks = [meta["property"]]
tier = "quick"
if "--checks" in args:
    checks = [c for c in args[args.index("--checks") + 1].split(",") if c]
if "--tier" in args:
    tier = args[args.index("--tier") + 1]
scratch = tempfile.mkdtemp(prefix="seedtest_", dir="/tmp")
out = {"seed": os.path.basename(d), "property": meta["property"]}
try:
    shutil.copytree("/repo/src", os.path.join(scratch, "src"), ignore=shutil.ignore_patterns("__pycache__"))
    p = subprocess.run(["patch", "-p1", "-s", "-i", os.path.join(d, "patch.diff")], cwd=scratch, capture_output=True, text=True)
    out["patch_applies"] = p.returncode == 0
    if p.returncode != 0:
        out["patch_err"] = (p.stdout + p.stderr)[-500:]
    env = dict(os.environ, PYTHONHASHSEED="0", PYTHONDONTWRITEBYTECODE="1")
    demo = os.path.join(d, "demo.py")
    a = subprocess.run(["/venv/bin/python", demo, "/repo/src"], capture_output=True, text=True, env=env, cwd="/tmp", timeout=900)
    b = subprocess.run(["/venv/bin/python", demo, os.path.join(scratch, "src")], capture_output=True, text=True, env=env, cwd="/tmp", timeout=900)
    out["demo_pristine_exit"] = a.returncode
    out["demo_patched_exit"] = b.returncode
    out["demo_patched_tail"] = (b.stdout + b.stderr)[-300:]
    harmless = meta.get("kind") == "harmless"
    out["kind"] = "harmless" if harmless else "breaking"
    out["confirmed"] = bool(out["patch_applies"] and a.returncode == 0 and b.returncode == (0 if harmless else 1))
    for c in checks:
        t0 = time.time()
        env2 = dict(env, VERIF_REPO_SRC=os.path.join(scratch, "src"), VERIF_EVIDENCE_DIR=os.path.join(scratch, "evidence"),
                    VERIF_GEN_SUBDIR="seed_" + os.path.basename(scratch))
        r = subprocess.run([os.path.join(HERE, "check"), c, "--tier", tier], capture_output=True, text=True, env=env2, cwd=HERE, timeout=3600)
        lines = [l for l in r.stdout.splitlines() if l.startswith("VIOLATION") or l.startswith("KNOWN-FINDING") or l.startswith("[")]
        out[f"check_{c}"] = {"exit": r.returncode, "caught": r.returncode == 1 and any(l.startswith("VIOLATION") for l in lines),
                             "quiet": r.returncode == 0 and not any(l.startswith("VIOLATION") for l in lines),
                             "lines": lines[-4:], "wall_s": round(time.time() - t0, 1)}
finally:
    shutil.rmtree(os.path.join(HERE, "coq", "generated", "seed_" + os.path.basename(scratch)), ignore_errors=True)
    if "--keep" not in args:
        shutil.rmtree(scratch, ignore_errors=True)
print(json.dumps(out, indent=1))
