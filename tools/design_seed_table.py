#!/usr/bin/env python3
"""Regenerate DESIGN.md section 11 (seeded changes and which check catches them) from seeded/*/meta.json + result.json."""
import glob, json, os, re
HERE = os.path.dirname(os.path.dirname(os.path.abspath(__file__)))
rows = []
for d in sorted(glob.glob(os.path.join(HERE, "seeded", "*"))):
    if not os.path.isdir(d): continue
    m = json.load(open(os.path.join(d, "meta.json")))
    r = json.load(open(os.path.join(d, "result.json"))) if os.path.exists(os.path.join(d, "result.json")) else {}
    ck = {k[6:]: v for k, v in r.items() if k.startswith("check_")}
    harmless = m.get("kind") == "harmless"
    def word(v):
        if harmless:
            return "**quiet** (exit 0)" if v.get("quiet") else "FALSE ALARM"
        return ("**caught**" if v["caught"] else "MISSED") + (" (no-failing-input-found)" if v["caught"] and any("no-failing-input-found" in l for l in v["lines"]) else "")
    verdict = "; ".join(f"`./check {k}`: {word(v)} {v['wall_s']:.0f} s" for k, v in ck.items()) or "not run yet"
    summ = re.sub(r"\s+", " ", m["summary"]).strip()
    needs = re.sub(r"\s+", " ", m.get("needs_to_manifest", "") or ("(behaviour-preserving refactoring; the check must stay quiet) " + m.get("why_behaviour_preserving", ""))).strip()
    rows.append(f"| `{os.path.basename(d)}` | {m['property']} | {summ[:330]}{'…' if len(summ) > 330 else ''} | {needs[:260]}{'…' if len(needs) > 260 else ''} | {verdict} |")
hdr = """## 11. Seeded changes (independent sub-agents) and which checks catch them

Each change below was written by a fresh sub-agent that was given only the property record and a scratch git worktree
(nothing from `/verif`), asked for a change that breaks the property, still imports, adds no failure to the existing tests
and needs something specific to manifest. Each was kept only after `tools/seedtest.py` confirmed it here: its `demo.py`
exits 0 on `/repo/src` and 1 on the patched copy. `seeded/<id>/` holds `patch.diff`, `demo.py`, `meta.json` and the last
`result.json` of running our check against it (quick tier; the anchored-source fingerprint differs, so the sampled part
is escalated x6). "caught" = the check exited 1 with a `VIOLATION` line and a replay file.

| id | property | change | needs to manifest | verdict of our check |
|---|---|---|---|---|
"""
txt = hdr + "\n".join(rows) + "\n"
p = os.path.join(HERE, "DESIGN.md")
s = open(p).read()
i = s.find("## 11. Seeded changes")
if i >= 0:
    j = s.find("\n## ", i + 5)
    s = s[:i] + txt + (s[j + 1:] if j >= 0 else "")
else:
    s = s.rstrip("\n") + "\n\n---------------------------------------------------------------------------------------------------\n\n" + txt
open(p, "w").write(s)
print(len(rows), "rows")
