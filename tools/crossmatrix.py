#!/usr/bin/env python3
"""For every seeded change, run the checks of ALL properties that anchor a changed file (cross-property effects and
cross-property false alarms). Writes seeded/<id>/cross.json.  usage: tools/crossmatrix.py [-j N] [--kind harmless|breaking]"""
import glob, json, os, re, subprocess, sys
from concurrent.futures import ThreadPoolExecutor
HERE = os.path.dirname(os.path.dirname(os.path.abspath(__file__)))
args = sys.argv[1:]
jobs = int(args[args.index("-j") + 1]) if "-j" in args else 4
kind = args[args.index("--kind") + 1] if "--kind" in args else None
props = [json.loads(l) for l in open(os.path.join(HERE, "properties.jsonl"))]
tasks = []
for d in sorted(glob.glob(os.path.join(HERE, "seeded", "*"))):
    if not os.path.isdir(d): continue
    m = json.load(open(os.path.join(d, "meta.json")))
    k = "harmless" if m.get("kind") == "harmless" else "breaking"
    if kind and k != kind: continue
    files = set(re.findall(r"^\+\+\+ b/(\S+)", open(os.path.join(d, "patch.diff")).read(), re.M))
    others = [p["id"] for p in props if p["id"] != m["property"] and files & set(p["anchors"]["files"])]
    for o in others:
        tasks.append((d, o, k))
def run(t):
    d, o, k = t
    r = subprocess.run([sys.executable, os.path.join(HERE, "tools", "seedtest.py"), d, "--checks", o], capture_output=True, text=True)
    try: out = json.loads(r.stdout[r.stdout.index("{"):])[f"check_{o}"]
    except Exception: out = {"error": (r.stdout + r.stderr)[-300:]}
    return os.path.basename(d), o, k, out
res = {}
with ThreadPoolExecutor(jobs) as ex:
    for name, o, k, out in ex.map(run, tasks):
        res.setdefault(name, {})[o] = out
        print(f"{name} ({k}) x {o}: exit={out.get('exit')} {'VIOLATION' if out.get('caught') else 'quiet' if out.get('quiet') else out.get('error','?')} {out.get('wall_s')}s", flush=True)
        json.dump(res[name], open(os.path.join(HERE, "seeded", name, "cross.json"), "w"), indent=1)
