#!/usr/bin/env python3
"""Regenerate /verif/MANIFEST.json from the per-property table below (keeps the manifest valid at all times)."""
import json, os
HERE = os.path.dirname(os.path.dirname(os.path.abspath(__file__)))
props = [json.loads(l) for l in open(os.path.join(HERE, "properties.jsonl"))]

# id -> (technique, level text, level note, design ref)
CLAIMED = {}
exec(open(os.path.join(HERE, "tools", "claims.py")).read())
# a property module may carry its own claim: CLAIM = {"technique":..., "text":..., "note":...} (pure literal)
import ast, glob
for f in sorted(glob.glob(os.path.join(HERE, "harness", "props", "c[0-9][0-9].py"))):
    pid = os.path.basename(f)[:-3].upper()
    if pid in NOT_CLAIMED or pid not in INTEGRATED:
        continue
    try:
        tree = ast.parse(open(f).read())
    except SyntaxError:
        continue
    for node in tree.body:
        if isinstance(node, ast.Assign) and any(isinstance(t, ast.Name) and t.id == "CLAIM" for t in node.targets):
            try:
                c = ast.literal_eval(node.value)
            except Exception:
                continue
            if all(k in c for k in ("technique", "text", "note")) and os.path.exists(os.path.join(HERE, "coq", "props", pid + ".v")):
                CLAIMED.setdefault(pid, c)

checks, na = [], []
for p in props:
    pid = p["id"]
    if pid in CLAIMED:
        c = CLAIMED[pid]
        checks.append({
            "property_id": pid,
            "quick_cmd": f"./check {pid} --tier quick",
            "thorough_cmd": f"./check {pid} --tier thorough",
            "evidence_file": f"evidence/{pid}.json",
            "replay_cmd_template": f"./check {pid} --replay {{path}}",
            "engine": "coq-models+correspondence-harness",
            "level_claimed": {"category": "proof", "text": c["text"], "design_ref": f"DESIGN.md section 5, {pid}"},
            "level_note": c["note"],
            "technique": c["technique"],
        })
    else:
        na.append({"property_id": pid, "reason": NOT_CLAIMED.get(pid, "check not built yet in this round (planned: DESIGN.md section 5)")})
m = {
    "version": 1,
    "setup_cmd": "make -C coq -j16 -k all || make -C coq lint",
    "hooks": {"guard": "VIVARIUM_VERIF", "enable": "none needed - the harness observes /repo/src from outside (boot shim puts /repo/src first on sys.path; wrappers are installed in the harness process only)",
              "baseline_off_cmd": "cd /repo && /venv/bin/python -m pytest -ra -q -p no:cacheprovider --timeout=900 --continue-on-collection-errors",
              "source_commits": [], "add_only": True},
    "engines": [{"name": "coq-models", "path": "coq/", "serves_properties": sorted(CLAIMED), "kind_free_text": "hand-written Gallina models, lemmas and property theorems (Coq 8.16.1, stdlib only) + tables/theorems regenerated from the live code on every run"},
                {"name": "correspondence-harness", "path": "harness/", "serves_properties": sorted(CLAIMED), "kind_free_text": "python drivers running /repo/src and emitting Coq case files decided by vm_compute; direct oracles for search and replay"}],
    "checks": checks,
    "not_applicable": na,
    "notes": "See DESIGN.md. Every check: make (full .vo build) -> coqc props/Cxx.v (Print Assumptions) -> generated tables/theorems -> correspondence batches (Coq decides agreement) -> direct oracle -> evidence.",
}
json.dump(m, open(os.path.join(HERE, "MANIFEST.json"), "w"), indent=1)
print("claimed:", sorted(CLAIMED), "not claimed:", [x["property_id"] for x in na])
