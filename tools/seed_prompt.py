#!/usr/bin/env python3
"""Print the prompt for an independent 'seeder' sub-agent: property text + scratch worktree, nothing from /verif."""
import json, os, sys
HERE = os.path.dirname(os.path.dirname(os.path.abspath(__file__)))
pid, wt, variant = sys.argv[1], sys.argv[2], (sys.argv[3] if len(sys.argv) > 3 else "")
p = [json.loads(l) for l in open(os.path.join(HERE, "properties.jsonl")) if json.loads(l)["id"] == pid][0]
print(f"""You are testing how well a semantic property of the Python package ihmeuw/vivarium is protected against regressions.

Work ONLY inside your own scratch git worktree of the repository: {wt}  (source under {wt}/src/vivarium, version 3.0.10).
Never read, list or touch /verif or /repo. Do not use the network (there is none).

THE PROPERTY (id {pid}), as a JSON record:
{json.dumps(p, indent=1)}

TASK: produce ONE realistic change to the package source (under {wt}/src/vivarium) that BREAKS this property while
 (a) the package still imports and the repository's existing test suite still passes, and
 (b) the breakage is not something ordinary use would expose at once: it needs something specific to manifest — a
     particular interleaving or ordering, a fault at a particular point, a multi-step sequence of operations, an unusual
     (boundary) input, or two cooperating sites that each look fine alone. {variant}
The change should look like something a developer could plausibly commit (a refactoring slip, an "optimisation", an
off-by-one, a dropped or reordered check, a cache, wrong axis/order, mishandled corner) — small (ideally < 25 changed lines).

ENVIRONMENT FACTS YOU NEED:
 * Python: /venv/bin/python (3.12, pandas 3.0.6, numpy 1.26.4). Never run python with the cwd inside src/vivarium
   (its types.py shadows the stdlib).
 * `import vivarium` normally resolves to an installed wheel (4.1.6) in site-packages, NOT to your worktree. To run YOUR
   worktree's source, start every script with:
       import sys, types
       sys.path.insert(0, "{wt}/src")
       m = types.ModuleType("vivarium._version"); m.__version__ = "0+x"; m.version = "0+x"; sys.modules["vivarium._version"] = m
       import vivarium; assert vivarium.__file__.startswith("{wt}/src")
   Useful: `from vivarium import InteractiveContext, Component`; `from vivarium.framework.engine import SimulationContext`;
   call `SimulationContext._clear_context_cache()` before creating a context; pass `logging_verbosity=0` if accepted;
   {wt}/src/vivarium/examples/disease_model is a complete example model.
 * The existing test suite: `cd {wt} && /venv/bin/python -m pytest -q -p no:cacheprovider -x --timeout=900 tests/framework -k "<relevant subset>"`
   (it imports the installed wheel, so it will pass regardless — still run a relevant subset once and say so). In addition,
   run the relevant part of the worktree's own tests AGAINST YOUR WORKTREE SOURCE and make sure your change does not add
   failures compared with the unchanged worktree: `cd {wt} && /venv/bin/python -c "import sys,types; sys.path.insert(0,'{wt}/src'); m=types.ModuleType('vivarium._version'); m.__version__='0+x'; m.version='0+x'; sys.modules['vivarium._version']=m; import pytest; sys.exit(pytest.main(['-q','-p','no:cacheprovider','-x','tests/framework/<dir or file>']))"`
   (some tests already fail on the unchanged worktree because of pandas-3 incompatibilities; compare before/after).
 * NEVER use `git stash` (the stash is shared between worktrees and other people are working in sibling worktrees). An
   unchanged copy of the source is at {wt}/PRISTINE/src — use it for every 'without the change' run.

DELIVERABLES, written into {wt}/SEED/ :
 * patch.diff   — `git -C {wt} diff -- src` of your change (source only; do not commit).
 * demo.py      — a self-contained script that takes the source root as argv[1] (e.g. `{wt}/src` or a pristine copy),
                  boots it as shown above, exercises the property through the package's public behaviour, and exits 0 if
                  the property holds and 1 (printing what went wrong) if it is violated. It must exit 1 with your change
                  applied and exit 0 on the unchanged source (`/venv/bin/python demo.py {wt}/PRISTINE/src`).
 * meta.json    — {{"property": "{pid}", "summary": "...", "needs_to_manifest": "...", "files_changed": [...],
                  "tests_run": "...", "demo_with_change": "exit 1: ...", "demo_without_change": "exit 0"}}
Leave the change applied in the worktree when you finish. Final message: a short description of the change, why it
violates the property, what is needed to trigger it, and the commands you ran with their outcomes.""")
