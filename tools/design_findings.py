#!/usr/bin/env python3
"""Regenerate DESIGN.md section 7b (current state of every finding) from known_findings.json."""
import json, os, re
HERE = os.path.dirname(os.path.dirname(os.path.abspath(__file__)))
fs = json.load(open(os.path.join(HERE, "known_findings.json")))["findings"]
rows = []
for f in sorted(fs, key=lambda f: (0 if f["status"] == "open" else 1, f["id"])):
    st = "**open** (listed; check prints KNOWN-FINDING)" if f["status"] == "open" else "fixed in `/repo`: " + " ".join(f["status"].split()[2:3])
    what = " ".join(f["what"].split())[:420]
    rows.append(f"| {f['id']} | {', '.join(f['properties'])} | {what} | {st} | `{f.get('demo', '')}` |")
txt = """## 7b. State of every finding (generated from `known_findings.json`)

Findings discovered by the machinery or its builders while models were being written against the code. "fixed" entries are
`fix:` commits in `/repo` (one defect each, existing tests unchanged); each has a demo under `fixes/` that exits 1 on the
pre-fix tree and 0 now, and the corresponding theorem is proved at full strength on the model of the repaired code.
"open" entries are genuine defects whose repair is not small and safe; the theorem carries the exact guard that excludes
the class, the generator exercises the class, and the check prints `KNOWN-FINDING` for it and exits 0.

| id | properties | what fails | state | demo |
|---|---|---|---|---|
""" + "\n".join(rows) + "\n\n"
p = os.path.join(HERE, "DESIGN.md")
s = open(p).read()
i = s.find("## 7b. State of every finding")
if i >= 0:
    j = s.find("\n## ", i + 5); k = s.find("\n-----", i + 5)
    j = min(x for x in (j, k) if x >= 0)
    s = s[:i] + txt.rstrip("\n") + "\n" + s[j:]
else:
    k = s.find("## 8. Trusted base")
    k = s.rfind("-----", 0, k); k = s.rfind("\n", 0, k) + 1
    s = s[:k] + txt + s[k:]
open(p, "w").write(s)
print(len(rows), "findings")
