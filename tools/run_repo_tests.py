"""Run (part of) the repository's own test-suite against /repo/src (not the installed wheel). Usage: run_repo_tests.py [pytest args]"""
import os, sys
sys.path.insert(0, "/verif/harness")
import boot  # noqa
os.chdir(os.path.dirname(boot.REPO_SRC))
import pytest
sys.exit(pytest.main(["-q", "-p", "no:cacheprovider", "--no-header"] + sys.argv[1:]))
