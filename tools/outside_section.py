"""stdin: grep -n hits `file:line:text` of Variable/Hypothesis; print those that are NOT inside a Section. exit 0 iff any printed."""
import re, sys
bad = []
for hit in sys.stdin:
    m = re.match(r"([^:]+):(\d+):", hit)
    if not m:
        continue
    path, line = m.group(1), int(m.group(2))
    depth = 0
    for i, l in enumerate(open(path), 1):
        if i >= line:
            break
        if re.match(r"\s*Section\s+\w+", l):
            depth += 1
        elif re.match(r"\s*End\s+\w+\s*\.", l) and depth > 0:
            depth -= 1
    if depth == 0:
        bad.append(hit.rstrip())
for b in bad:
    print(b)
sys.exit(0 if bad else 1)
