(* Feasibility sketch: soundness of the FIFO Kahn model (C09). *)
From Coq Require Import List Arith Bool Lia Permutation.
Import ListNotations.
Require Import Kahn.

Lemma NoDup_app_snoc (A:Type) (l : list A) (x : A) : NoDup l -> ~ In x l -> NoDup (l ++ [x]).
Proof. induction l as [|a l IH]; simpl; intros Hn Hx.
  - constructor; [auto|constructor].
  - inversion Hn; subst. constructor.
    + intro Hi. apply in_app_or in Hi as [Hi|[->|[]]]; auto.
    + apply IH; auto. Qed.

Lemma NoDup_app_l (A:Type) (l l' : list A) : NoDup (l ++ l') -> NoDup l.
Proof. induction l as [|a l IH]; simpl; intros H; [constructor|].
  inversion H; subst. constructor; [|auto]. intro Hi. apply H2. apply in_or_app; auto. Qed.

Section Proof.
Variable nodes : list node.
Variable edges : list edge.

Notation succs := (succs edges).
Notation dec_all := (dec_all).
Definition memb (x : node) (l : list node) : bool := existsb (Nat.eqb x) l.

Lemma memb_In x l : memb x l = true <-> In x l.
Proof. unfold memb. rewrite existsb_exists. split.
  - intros [y [Hy He]]. apply Nat.eqb_eq in He. subst; auto.
  - intros H. exists x. split; auto. apply Nat.eqb_refl. Qed.
Lemma memb_false x l : memb x l = false <-> ~ In x l.
Proof. rewrite <- memb_In. destruct (memb x l); split; congruence. Qed.

(* number of edges into v whose source is not yet emitted *)
Definition cnt (out : list node) (v : node) : nat :=
  length (filter (fun e => (snd e =? v) && negb (memb (fst e) out)) edges).

Definition ecount (u v : node) : nat :=
  length (filter (fun e => (fst e =? u) && (snd e =? v)) edges).

Lemma count_succs u v : count_occ Nat.eq_dec (succs u) v = ecount u v.
Proof.
  unfold Kahn.succs, ecount. induction edges as [|[a b] es IH]; simpl; auto.
  destruct (a =? u) eqn:Ea; simpl.
  - destruct (Nat.eq_dec b v) as [->|Hn].
    + rewrite Nat.eqb_refl. simpl. now rewrite IH.
    + apply Nat.eqb_neq in Hn. rewrite Hn. now rewrite IH.
  - exact IH.
Qed.

Lemma cnt_snoc out u v : ~ In u out -> cnt out v = cnt (out ++ [u]) v + ecount u v.
Proof.
  intros Hu. unfold cnt, ecount. induction edges as [|[a b] es IH]; simpl; auto.
  destruct (b =? v) eqn:Eb; simpl.
  - destruct (a =? u) eqn:Ea; simpl.
    + apply Nat.eqb_eq in Ea. subst a.
      assert (H1: memb u out = false) by (apply memb_false; auto).
      assert (H2: memb u (out ++ [u]) = true) by (apply memb_In, in_or_app; right; simpl; auto).
      rewrite H1, H2. simpl. lia.
    + assert (H : memb a (out ++ [u]) = memb a out).
      { unfold memb. rewrite existsb_app. simpl. rewrite Ea. now rewrite !orb_false_r. }
      rewrite H. destruct (memb a out); simpl; lia.
  - rewrite andb_false_r. simpl. exact IH.
Qed.

Lemma cnt_zero out v : cnt out v = 0 -> forall u, In (u, v) edges -> In u out.
Proof.
  unfold cnt. intros H u Hin.
  destruct (memb u out) eqn:E; [now apply memb_In|].
  assert (In (u,v) (filter (fun e => (snd e =? v) && negb (memb (fst e) out)) edges)).
  { apply filter_In. split; auto. simpl. rewrite Nat.eqb_refl, E. reflexivity. }
  remember (filter (fun e => (snd e =? v) && negb (memb (fst e) out)) edges) as fl.
  destruct fl; simpl in *; [contradiction|discriminate].
Qed.

Lemma ecount_pos u v : In (u,v) edges -> ecount u v > 0.
Proof.
  unfold ecount. intros H.
  assert (In (u,v) (filter (fun e => (fst e =? u) && (snd e =? v)) edges)).
  { apply filter_In. split; auto. simpl. now rewrite !Nat.eqb_refl. }
  remember (filter (fun e => (fst e =? u) && (snd e =? v)) edges) as fl.
  destruct fl; simpl in *; [contradiction|lia].
Qed.

Lemma in_succs u c : In c (succs u) <-> In (u,c) edges.
Proof. unfold Kahn.succs. rewrite in_map_iff. split.
  - intros [[a b] [Hb Hf]]. simpl in Hb. subst. apply filter_In in Hf as [Hi He]. simpl in He. apply Nat.eqb_eq in He. now subst.
  - intros H. exists (u,c). split; auto. apply filter_In. split; auto. simpl. apply Nat.eqb_refl. Qed.

(* "every edge into a member of l has its source strictly earlier in l" *)
Definition ordered (l : list node) : Prop :=
  forall l1 v l2, l = l1 ++ v :: l2 -> forall u, In (u,v) edges -> In u l1.

(* inner-loop invariant; out' is the emitted list including the node being expanded *)
Record J (out' : list node) (m : node -> nat) (q R : list node) : Prop := {
  J1 : NoDup (out' ++ q);
  J2 : forall v, In v q -> forall u, In (u,v) edges -> In u out';
  J3 : forall v, ~ In v (out' ++ q) -> m v = cnt out' v + count_occ Nat.eq_dec R v;
  J4 : forall c, In c R -> ~ In c (out' ++ q);
  J5 : incl q nodes
}.

Lemma dec_all_J out' R : forall m q,
  (forall c, In c R -> In c nodes) ->
  J out' m q R ->
  let '(m', q') := dec_all m R q in J out' m' q' [].
Proof.
  induction R as [|c R IH]; intros m q HR HJ; simpl.
  - exact HJ.
  - destruct HJ as [H1 H2 H3 H4 H5].
    assert (Hc : ~ In c (out' ++ q)) by (apply H4; simpl; auto).
    assert (Hm : m c = cnt out' c + S (count_occ Nat.eq_dec R c)).
    { rewrite (H3 c Hc). simpl. destruct (Nat.eq_dec c c); [reflexivity|congruence]. }
    unfold upd at 1. rewrite Nat.eqb_refl.
    destruct (m c - 1 =? 0) eqn:Ez.
    + (* enqueue c *)
      apply Nat.eqb_eq in Ez.
      assert (Hcnt : cnt out' c = 0) by lia.
      assert (HcR : count_occ Nat.eq_dec R c = 0) by lia.
      apply IH; [intros; apply HR; simpl; auto|].
      constructor.
      * rewrite app_assoc. apply NoDup_app_snoc; auto.
      * intros v Hv u Hu. apply in_app_or in Hv as [Hv|[<-|[]]]; [eauto|].
        eapply cnt_zero; eauto.
      * intros v Hv. unfold upd.
        destruct (v =? c) eqn:Evc.
        { apply Nat.eqb_eq in Evc. subst v. exfalso. apply Hv. rewrite app_assoc. apply in_or_app. right. simpl; auto. }
        rewrite H3.
        2:{ intro Hi. apply Hv. rewrite app_assoc. apply in_or_app. left. exact Hi. }
        simpl. apply Nat.eqb_neq in Evc. destruct (Nat.eq_dec c v); [congruence|reflexivity].
      * intros c' Hc' Hin. rewrite app_assoc in Hin. apply in_app_or in Hin as [Hin|[<-|[]]].
        { apply (H4 c'); simpl; auto. }
        { apply (count_occ_not_In Nat.eq_dec) in HcR. contradiction. }
      * intros x Hx. apply in_app_or in Hx as [Hx|[<-|[]]]; [auto|]. apply HR. simpl; auto.
    + (* not yet zero *)
      apply IH; [intros; apply HR; simpl; auto|].
      constructor; auto.
      * intros v Hv. unfold upd. destruct (v =? c) eqn:Evc.
        { apply Nat.eqb_eq in Evc. subst v. lia. }
        rewrite (H3 v Hv). simpl. apply Nat.eqb_neq in Evc. destruct (Nat.eq_dec c v); [congruence|reflexivity].
      * intros c' Hc'. apply H4. simpl; auto.
Qed.

(* ---- outer loop ---- *)
Fixpoint ord_rev (r : list node) : Prop :=
  match r with
  | [] => True
  | v :: r' => (forall u, In (u,v) edges -> In u r') /\ ord_rev r'
  end.

Lemma ord_rev_closed r : ord_rev r -> forall c u, In c r -> In (u,c) edges -> In u r.
Proof. induction r as [|v r IH]; simpl; intros Ho c u Hc He; [contradiction|].
  destruct Ho as [Hv Ho]. destruct Hc as [->|Hc]; [right; eauto|right; eapply IH; eauto]. Qed.

Record I (m : node -> nat) (q out : list node) : Prop := {
  I1 : NoDup (out ++ q);
  I2 : forall v, In v q -> forall u, In (u,v) edges -> In u out;
  I3 : forall v, ~ In v (out ++ q) -> m v = cnt out v;
  I4 : ord_rev (rev out);
  I5 : incl (out ++ q) nodes
}.

Hypothesis edges_closed : forall u v, In (u,v) edges -> In u nodes /\ In v nodes.

Lemma NoDup_mid_notin (A:Type) (l1 l2 : list A) (x : A) : NoDup (l1 ++ x :: l2) -> ~ In x l1 /\ ~ In x l2.
Proof. intros H. apply NoDup_remove_2 in H. split; intro Hi; apply H; apply in_or_app; auto. Qed.

Lemma step_I m u q out :
  I m (u :: q) out ->
  let '(m', q') := dec_all m (succs u) q in I m' q' (out ++ [u]).
Proof.
  intros [H1 H2 H3 H4 H5].
  destruct (NoDup_mid_notin _ _ _ _ H1) as [Huo Huq].
  assert (HJ : J (out ++ [u]) m q (succs u)).
  { constructor.
    - rewrite <- app_assoc. exact H1.
    - intros v Hv w Hw. apply in_or_app. left. eapply H2; simpl; eauto.
    - intros v Hv. rewrite count_succs. rewrite <- cnt_snoc by exact Huo. apply H3.
      intro Hi. apply Hv. rewrite <- app_assoc. exact Hi.
    - intros c Hc Hin. apply in_succs in Hc.
      rewrite <- app_assoc in Hin. apply in_app_or in Hin as [Hin|[<-|Hin]].
      + apply Huo. apply in_rev. eapply ord_rev_closed; eauto. now apply in_rev in Hin.
      + apply Huo. eapply H2; simpl; eauto.
      + apply Huo. eapply (H2 c); simpl; eauto.
    - intros x Hx. apply H5. apply in_or_app. right. simpl; auto. }
  pose proof (dec_all_J (out ++ [u]) (succs u) m q) as HD.
  destruct (dec_all m (succs u) q) as [m' q'].
  assert (Hn : forall c, In c (succs u) -> In c nodes).
  { intros c Hc. apply in_succs in Hc. now apply edges_closed in Hc. }
  specialize (HD Hn HJ). destruct HD as [K1 K2 K3 K4 K5].
  constructor; auto.
  - intros v Hv. rewrite (K3 v Hv). simpl. lia.
  - rewrite rev_unit. simpl. split; [|exact H4].
    intros w Hw. apply in_rev. rewrite rev_involutive. eapply H2; simpl; eauto.
  - intros x Hx. apply in_app_or in Hx as [Hx|Hx]; [|auto].
    apply in_app_or in Hx as [Hx|[<-|[]]]; apply H5; apply in_or_app; [left|right]; simpl; auto.
Qed.

Lemma loop_I fuel : forall m q out, I m q out ->
  let o := loop edges fuel m q out in NoDup o /\ incl o nodes /\ ord_rev (rev o).
Proof.
  induction fuel as [|f IH]; intros m q out HI; simpl.
  - destruct HI as [H1 _ _ H4 H5]. repeat split; auto.
    + now apply NoDup_app_l in H1.
    + intros x Hx. apply H5. apply in_or_app; auto.
  - destruct q as [|u q].
    + destruct HI as [H1 _ _ H4 H5]. rewrite app_nil_r in *. repeat split; auto.
    + pose proof (step_I m u q out HI) as HS.
      destruct (dec_all m (succs u) q) as [m' q']. apply IH. exact HS.
Qed.

Hypothesis nodes_nodup : NoDup nodes.

Lemma init_I : I (indeg0 edges) (filter (fun v => indeg0 edges v =? 0) nodes) [].
Proof.
  constructor; simpl.
  - now apply NoDup_filter.
  - intros v Hv u Hu. apply filter_In in Hv as [_ Hz]. apply Nat.eqb_eq in Hz.
    unfold indeg0, preds in Hz. rewrite map_length in Hz.
    assert (In (u,v) (filter (fun e => snd e =? v) edges)) by (apply filter_In; split; auto; simpl; apply Nat.eqb_refl).
    remember (filter (fun e => snd e =? v) edges) as fl. destruct fl; simpl in *; [contradiction|discriminate].
  - intros v _. unfold indeg0, preds, cnt. rewrite map_length. f_equal.
    apply filter_ext. intros [a b]. simpl. now rewrite andb_true_r.
  - exact Logic.I.
  - intros x Hx. now apply filter_In in Hx as [Hx _].
Qed.

(* every edge's source strictly precedes its target in o *)
Definition respects (o : list node) : Prop :=
  forall l1 v l2, o = l1 ++ v :: l2 -> forall u, In (u,v) edges -> In u l1.

Lemma ord_rev_respects o : ord_rev (rev o) -> respects o.
Proof.
  unfold respects. intros Ho l1 v l2 -> u Hu.
  rewrite rev_app_distr in Ho. simpl in Ho. rewrite <- app_assoc in Ho. simpl in Ho.
  revert Ho. generalize (rev l2) as r. induction r as [|x r IH]; simpl; intros Ho.
  - destruct Ho as [Hv _]. apply in_rev. eauto.
  - destruct Ho as [_ Ho]. auto.
Qed.

Theorem kahn_sound o : kahn nodes edges = Some o -> Permutation o nodes /\ respects o.
Proof.
  unfold kahn. set (q0 := filter _ nodes).
  destruct (loop_I (length nodes) _ _ _ init_I) as [Hn [Hi Ho]]. fold q0 in Hn, Hi, Ho.
  destruct (length (loop edges (length nodes) (indeg0 edges) q0 []) =? length nodes) eqn:El; [|discriminate].
  intros [= <-]. apply Nat.eqb_eq in El. split.
  - apply NoDup_Permutation_bis; auto. lia.
  - now apply ord_rev_respects.
Qed.

Corollary kahn_refuses_cycle u v : In (u,v) edges -> In (v,u) edges -> kahn nodes edges = None.
Proof.
  intros H1 H2. destruct (kahn nodes edges) as [o|] eqn:E; [|reflexivity]. exfalso.
  apply kahn_sound in E as [Hp Hr].
  assert (Hv : In v o). { eapply Permutation_in; [apply Permutation_sym; exact Hp|]. now apply edges_closed in H1. }
  apply in_split in Hv as [l1 [l2 ->]].
  pose proof (Hr l1 v l2 eq_refl u H1) as Hu. apply in_split in Hu as [a [b ->]].
  pose proof (Hr a u (b ++ v :: l2)) as Hx. rewrite <- app_assoc in Hx. specialize (Hx eq_refl v H2).
  apply Permutation_sym in Hp.
  assert (Hnd : NoDup ((a ++ u :: b) ++ v :: l2)) by (eapply Permutation_NoDup; eauto).
  rewrite <- app_assoc in Hnd. simpl in Hnd.
  apply in_split in Hx as [c [d ->]].
  rewrite <- app_assoc in Hnd. simpl in Hnd.
  apply NoDup_remove_2 in Hnd. apply Hnd. apply in_or_app. right. apply in_or_app. right. simpl. right.
  apply in_or_app. right. simpl; auto.
Qed.

(* reachability: what "transitively, the pipeline's source and modifiers" needs *)
Inductive path : node -> node -> Prop :=
| path_edge u v : In (u,v) edges -> path u v
| path_trans u w v : path u w -> path w v -> path u v.

Theorem respects_paths o : respects o -> forall u v, path u v -> forall l1 l2, o = l1 ++ v :: l2 -> In u l1.
Proof.
  intros Hr u v Hp. induction Hp as [u v He|u w v _ IH1 _ IH2]; intros l1 l2 Ho.
  - eapply Hr; eauto.
  - pose proof (IH2 l1 l2 Ho) as Hw. apply in_split in Hw as [a [b ->]].
    rewrite <- app_assoc in Ho. simpl in Ho. pose proof (IH1 a _ Ho) as Hu.
    apply in_or_app. now left.
Qed.

Corollary kahn_order_respects_closure o u v :
  kahn nodes edges = Some o -> path u v -> forall l1 l2, o = l1 ++ v :: l2 -> In u l1.
Proof. intros Hk. apply kahn_sound in Hk as [_ Hr]. now apply respects_paths. Qed.

(* any cycle, of any length, is refused *)
Corollary kahn_refuses_any_cycle u : path u u -> In u nodes -> kahn nodes edges = None.
Proof.
  intros Hp Hu. destruct (kahn nodes edges) as [o|] eqn:E; [|reflexivity]. exfalso.
  pose proof (kahn_sound o E) as [Hperm Hr].
  assert (Hin : In u o) by (eapply Permutation_in; [apply Permutation_sym; exact Hperm|exact Hu]).
  apply in_split in Hin as [l1 [l2 Ho]].
  pose proof (respects_paths o Hr u u Hp l1 l2 Ho) as Hu1.
  assert (Hnd : NoDup o) by (eapply Permutation_NoDup; [apply Permutation_sym; exact Hperm|exact nodes_nodup]).
  rewrite Ho in Hnd. apply NoDup_remove_2 in Hnd. apply Hnd. apply in_or_app. now left.
Qed.
End Proof.
Print Assumptions kahn_sound. Print Assumptions kahn_refuses_any_cycle.
