(* Feasibility sketch for C11: per-column update loop. "interleaved" = today's code (dtype check inside the loop,
   column assigned immediately); "hoisted" = all checks first.  Rejected => unchanged is refuted for the first
   and proved for the second; on success both write exactly the addressed cells. *)
From Coq Require Import List ZArith Arith Bool Lia.
Import ListNotations.

Definition cid := nat.
Definition dtype := nat.
Definition cell := Z.
Record col := { dt : dtype; cells : list cell }.
Definition table := list (cid * col).                      (* column order irrelevant for the theorems *)
Record ucol := { u_id : cid; u_dt : dtype; u_vals : list (nat * cell) }.   (* (row label, value), any order/subset *)

Fixpoint set_nth (n : nat) (v : cell) (l : list cell) : list cell :=
  match l, n with [], _ => [] | _ :: r, O => v :: r | x :: r, S n' => x :: set_nth n' v r end.
Definition write (cs : list cell) (vals : list (nat * cell)) : list cell :=
  fold_left (fun acc lv => set_nth (fst lv) (snd lv) acc) vals cs.

Fixpoint get (t : table) (c : cid) : option col :=
  match t with [] => None | (c', k) :: r => if c' =? c then Some k else get r c end.
Fixpoint put (t : table) (c : cid) (k : col) : table :=
  match t with [] => [] | (c', k') :: r => if c' =? c then (c', k) :: r else (c', k') :: put r c k end.

(* _update_column_and_ensure_dtype in steady state: same dtype or PopulationError *)
Definition new_col (t : table) (u : ucol) : option col :=
  match get t (u_id u) with
  | Some k => if dt k =? u_dt u then Some {| dt := dt k; cells := write (cells k) (u_vals u) |} else None
  | None => None
  end.

(* today's loop: for column in order: compute (may raise) ; assign *)
Fixpoint interleaved (t : table) (us : list ucol) : table * bool :=
  match us with
  | [] => (t, true)
  | u :: r => match new_col t u with Some k => interleaved (put t (u_id u) k) r | None => (t, false) end
  end.
(* repaired loop: compute all (may raise), then assign all *)
Fixpoint all_new (t : table) (us : list ucol) : option (list (cid * col)) :=
  match us with
  | [] => Some []
  | u :: r => match new_col t u, all_new t r with Some k, Some ks => Some ((u_id u, k) :: ks) | _, _ => None end
  end.
Definition hoisted (t : table) (us : list ucol) : table * bool :=
  match all_new t us with
  | Some ks => (fold_left (fun acc ck => put acc (fst ck) (snd ck)) ks t, true)
  | None => (t, false)
  end.

(* ---- refutation for today's loop ---- *)
Definition t0 : table := [ (0, {| dt := 1; cells := [10; 20; 30]%Z |}); (1, {| dt := 2; cells := [1; 2; 3]%Z |}) ].
Definition u_good := {| u_id := 0; u_dt := 1; u_vals := [(1, 99%Z)] |}.
Definition u_bad  := {| u_id := 1; u_dt := 7; u_vals := [(1, 5%Z)] |}.
Theorem rejected_unchanged_refuted : exists t us, snd (interleaved t us) = false /\ fst (interleaved t us) <> t.
Proof. exists t0, [u_good; u_bad]. vm_compute. split; [reflexivity|discriminate]. Qed.

(* ---- repaired loop: rejected => unchanged (for every column order: no hypothesis on us) ---- *)
Theorem hoisted_rejected_unchanged t us : snd (hoisted t us) = false -> fst (hoisted t us) = t.
Proof. unfold hoisted. destruct (all_new t us); simpl; [discriminate|reflexivity]. Qed.

(* ---- exactness of a single column write ---- *)
Lemma set_nth_nth n v l : forall m, nth m (set_nth n v l) 0%Z = if (m =? n) && (n <? length l) then v else nth m l 0%Z.
Proof. revert n. induction l as [|x r IH]; intros n m; simpl.
  - destruct n; destruct m; simpl; try reflexivity; now rewrite ?andb_false_r.
  - destruct n as [|n]; destruct m as [|m]; simpl; try reflexivity. rewrite IH.
    replace (S n <? S (length r)) with (n <? length r) by (unfold Nat.ltb; reflexivity). reflexivity. Qed.
Lemma set_nth_len n v l : length (set_nth n v l) = length l.
Proof. revert n. induction l as [|x r IH]; intros [|n]; simpl; auto. Qed.

(* last value supplied for row m, if any *)
Fixpoint last_for (m : nat) (vals : list (nat * cell)) (acc : option cell) : option cell :=
  match vals with [] => acc | (l, v) :: r => last_for m r (if l =? m then Some v else acc) end.

Theorem write_exact vals : forall cs m, (forall l v, In (l, v) vals -> l < length cs) ->
  nth m (write cs vals) 0%Z = match last_for m vals None with Some v => v | None => nth m cs 0%Z end
  /\ length (write cs vals) = length cs.
Proof.
  assert (G : forall vals cs m, (forall l v, In (l, v) vals -> l < length cs) ->
     (nth m (write cs vals) 0%Z = match last_for m vals None with Some v => v | None => nth m cs 0%Z end)
     /\ length (write cs vals) = length cs).
  { induction vals0 as [|[l v] r IH]; intros cs m Hb; simpl; [auto|].
    assert (Hl : l < length cs) by (eapply Hb; left; reflexivity).
    destruct (IH (set_nth l v cs) m) as [A B].
    { intros l' v' Hi. rewrite set_nth_len. eapply Hb. right. exact Hi. }
    unfold write in *. simpl. rewrite B, set_nth_len. split; [|reflexivity].
    rewrite A. clear A B IH.
    assert (K : forall r acc1, last_for m r acc1 = match last_for m r None with Some x => Some x | None => acc1 end).
    { induction r0 as [|[l' v'] r' IHr]; intros acc1; simpl; [reflexivity|].
      destruct (l' =? m); [rewrite (IHr (Some v')); destruct (last_for m r' None); reflexivity|apply IHr]. }
    rewrite (K r (if l =? m then Some v else None)).
    destruct (last_for m r None); [reflexivity|].
    rewrite set_nth_nth. apply Nat.ltb_lt in Hl. rewrite Hl, andb_true_r. rewrite Nat.eqb_sym. destruct (l =? m); reflexivity. }
  intros cs m Hb. exact (G vals cs m Hb).
Qed.
Print Assumptions write_exact. Print Assumptions hoisted_rejected_unchanged.
