(* Feasibility sketch for C16: increments partition the eligible simulants; totals are sums of increments. *)
From Coq Require Import List ZArith Arith Bool Lia.
Import ListNotations.
Open Scope Z_scope.

Definition stratum := nat.                                   (* index into the full cartesian product *)
Record srow := { elig : bool;                                (* in event, passes pop_filter *)
                 cat  : option stratum;                      (* None = an excluded category (NaN, dropped) *)
                 w    : Z }.                                 (* 1 for len, else the aggregated quantity *)

Definition counted (r : srow) (s : stratum) : bool :=
  elig r && match cat r with Some c => (c =? s)%nat | None => false end.
Definition increment (snap : list srow) (s : stratum) : Z :=
  fold_right (fun r acc => (if counted r s then w r else 0) + acc) 0 snap.
Definition sum_over (strata : list stratum) (f : stratum -> Z) : Z := fold_right (fun s acc => f s + acc) 0 strata.
Definition eligible_total (strata : list stratum) (snap : list srow) : Z :=
  fold_right (fun r acc => (if elig r && match cat r with Some c => existsb (Nat.eqb c) strata | None => false end then w r else 0) + acc) 0 snap.

Lemma one_stratum strata c x : NoDup strata ->
  sum_over strata (fun s => if (c =? s)%nat then x else 0) = if existsb (Nat.eqb c) strata then x else 0.
Proof. induction strata as [|s r IH]; intros Hn; simpl; [reflexivity|]. inversion Hn; subst. rewrite (IH H2).
  destruct (c =? s)%nat eqn:E; simpl; [|lia]. apply Nat.eqb_eq in E. subst.
  assert (existsb (Nat.eqb s) r = false).
  { destruct (existsb (Nat.eqb s) r) eqn:Ex; [|reflexivity]. apply existsb_exists in Ex as [y [Hy He]]. apply Nat.eqb_eq in He. now subst. }
  rewrite H. lia. Qed.

Lemma sum_over_add strata f g : sum_over strata (fun s => f s + g s) = sum_over strata f + sum_over strata g.
Proof. induction strata; simpl; lia. Qed.
Lemma sum_over_zero strata : sum_over strata (fun _ => 0) = 0.
Proof. induction strata; simpl; lia. Qed.

(* conservation: increments over all strata add up to the eligible (non-excluded) simulants, each counted once *)
Theorem partition strata snap : NoDup strata ->
  sum_over strata (increment snap) = eligible_total strata snap.
Proof.
  intros Hn. induction snap as [|r rs IH]; simpl.
  - apply sum_over_zero.
  - unfold increment in *. simpl. rewrite sum_over_add, IH. f_equal.
    unfold counted. destruct (elig r); simpl; [|apply sum_over_zero].
    destruct (cat r) as [c|]; [|apply sum_over_zero]. now apply one_stratum.
Qed.

(* reported value = sum of the per-event increments, for every history of snapshots *)
Definition accumulate (snaps : list (list srow)) (s : stratum) : Z := fold_left (fun tot snap => tot + increment snap s) snaps 0.
Lemma acc_gen snaps s : forall z, fold_left (fun tot snap => tot + increment snap s) snaps z
                                 = z + fold_right (fun snap acc => increment snap s + acc) 0 snaps.
Proof. induction snaps as [|sn r IH]; intros z; simpl; [lia|]. rewrite IH. lia. Qed.
Theorem total_is_sum snaps s : accumulate snaps s = fold_right (fun snap acc => increment snap s + acc) 0 snaps.
Proof. unfold accumulate. rewrite acc_gen. lia. Qed.
Print Assumptions partition.
