(* Feasibility sketch for C19: artifact = file nodes + persisted keyspace + in-memory keys + cache.
   Effects in the code's order. "today" replace/write vs "repaired" (validate & serialise before any effect). *)
From Coq Require Import List Arith Bool Lia.
Import ListNotations.

Definition key := nat.
Inductive data := Good (payload : nat) | NoData | Unser.        (* None / not JSON-serialisable *)
Inductive node := Val (payload : nat) | Orphan.

Record store := { file : list (key * node); keyspace : list key; keys : list key; cache : list (key * nat) }.

Definition memk (k : key) (l : list key) := existsb (Nat.eqb k) l.
Fixpoint del {A} (k : key) (l : list (key * A)) : list (key * A) :=
  match l with [] => [] | (k', v) :: r => if k' =? k then del k r else (k', v) :: del k r end.
Fixpoint delk (k : key) (l : list key) : list key :=
  match l with [] => [] | k' :: r => if k' =? k then r else k' :: delk k r end.     (* list.remove: first occurrence *)
Fixpoint find {A} (k : key) (l : list (key * A)) : option A :=
  match l with [] => None | (k', v) :: r => if k' =? k then Some v else find k r end.

Inductive out := Done | Rejected | Loaded (p : nat).

(* hdf.write for non-pandas data, today: create node, THEN json.dumps *)
Definition hdf_write_today (s : store) (k : key) (d : data) : store * bool :=
  match find k (file s) with
  | Some _ => (s, false)                                                    (* NodeError: node exists *)
  | None => match d with
            | Good p => ({| file := file s ++ [(k, Val p)]; keyspace := keyspace s; keys := keys s; cache := cache s |}, true)
            | _ => ({| file := file s ++ [(k, Orphan)]; keyspace := keyspace s; keys := keys s; cache := cache s |}, false)
            end
  end.
Definition hdf_write_fixed (s : store) (k : key) (d : data) : store * bool :=
  match d, find k (file s) with
  | Good p, None => ({| file := file s ++ [(k, Val p)]; keyspace := keyspace s; keys := keys s; cache := cache s |}, true)
  | _, _ => (s, false)
  end.

Section Ops.
Variable hdf_write : store -> key -> data -> store * bool.
Variable validate_first : bool.                       (* repaired replace validates before removing *)

Definition write (s : store) (k : key) (d : data) : store * out :=
  if memk k (keys s) then (s, Rejected)
  else match d with NoData => (s, Rejected) | _ =>
       let '(s1, ok) := hdf_write s k d in
       if ok then ({| file := file s1; keyspace := keys s1 ++ [k]; keys := keys s1 ++ [k]; cache := cache s1 |}, Done)
       else (s1, Rejected) end.
Definition remove (s : store) (k : key) : store * out :=
  if memk k (keys s)
  then ({| file := del k (file s); keyspace := delk k (keys s); keys := delk k (keys s); cache := del k (cache s) |}, Done)
  else (s, Rejected).
Definition replace (s : store) (k : key) (d : data) : store * out :=
  if negb (memk k (keys s)) then (s, Rejected)
  else if validate_first && match d with Good _ => false | _ => true end then (s, Rejected)
  else let '(s1, _) := remove s k in write s1 k d.
Definition load (s : store) (k : key) : store * out :=
  if negb (memk k (keys s)) then (s, Rejected)
  else match find k (cache s) with
       | Some p => (s, Loaded p)
       | None => match find k (file s) with
                 | Some (Val p) => ({| file := file s; keyspace := keyspace s; keys := keys s; cache := (k, p) :: cache s |}, Loaded p)
                 | _ => (s, Rejected) end
       end.
End Ops.

Definition s1 : store := {| file := [(5, Val 7)]; keyspace := [5]; keys := [5]; cache := [] |}.

(* today: replace(k, None) loses the key; write(k, unserialisable) leaves an orphan and blocks the retry *)
Theorem replace_rejected_unchanged_refuted :
  exists s k d, snd (replace hdf_write_today false s k d) = Rejected /\ fst (replace hdf_write_today false s k d) <> s.
Proof. exists s1, 5, NoData. vm_compute. split; [reflexivity|discriminate]. Qed.
Theorem write_rejected_unchanged_refuted :
  exists s k d, snd (write hdf_write_today s k d) = Rejected /\ fst (write hdf_write_today s k d) <> s
                /\ snd (write hdf_write_today (fst (write hdf_write_today s k d)) k (Good 1)) = Rejected.
Proof. exists s1, 6, Unser. vm_compute. repeat split; discriminate. Qed.

(* repaired: every rejected operation leaves the store untouched *)
Lemma delk_notin k l : NoDup l -> ~ In k (delk k l).
Proof. induction l as [|x r IH]; simpl; intros Hn; [auto|]. inversion Hn; subst.
  destruct (x =? k) eqn:E; [apply Nat.eqb_eq in E; now subst|]. intros [->|H]; [now rewrite Nat.eqb_refl in E|]. now apply IH. Qed.
Lemma memk_In k l : memk k l = true <-> In k l.
Proof. unfold memk. rewrite existsb_exists. split; [intros [x [Hx He]]; apply Nat.eqb_eq in He; now subst|intros H; exists k; split; auto; apply Nat.eqb_refl]. Qed.

Theorem fixed_rejected_unchanged s k d :
  NoDup (keys s) ->                                                           (* part of Inv *)
  (forall k', In k' (keys s) -> find k' (del k' (file s)) = None) ->           (* trivial: del removes all bindings *)
  (snd (write hdf_write_fixed s k d) = Rejected -> fst (write hdf_write_fixed s k d) = s) /\
  (snd (remove s k) = Rejected -> fst (remove s k) = s) /\
  (snd (load s k) = Rejected -> fst (load s k) = s) /\
  (snd (replace hdf_write_fixed true s k d) = Rejected -> fst (replace hdf_write_fixed true s k d) = s).
Proof.
  intros Hnd Hagree. repeat split.
  - unfold write. destruct (memk k (keys s)); [reflexivity|]. destruct d; simpl; try reflexivity.
    destruct (find k (file s)); simpl; [reflexivity|discriminate].
  - unfold remove. destruct (memk k (keys s)); simpl; [discriminate|reflexivity].
  - unfold load. destruct (memk k (keys s)); simpl; [|reflexivity].
    destruct (find k (cache s)); [reflexivity|]. destruct (find k (file s)) as [[p|]|]; simpl; try reflexivity. discriminate.
  - unfold replace. destruct (memk k (keys s)) eqn:Em; simpl; [|reflexivity].
    destruct d as [p| |]; simpl; try reflexivity.
    unfold remove. rewrite Em. unfold write. simpl.
    assert (Hin : In k (keys s)) by now apply memk_In.
    assert (E2 : memk k (delk k (keys s)) = false).
    { destruct (memk k (delk k (keys s))) eqn:E; [|reflexivity]. apply memk_In in E. now apply delk_notin in E. }
    rewrite E2, (Hagree k Hin). simpl. discriminate.
Qed.
Print Assumptions fixed_rejected_unchanged.
