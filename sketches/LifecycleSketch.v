(* Feasibility sketch for C06: links built by mutation (add_phase / add_next) vs the declarative legal order. *)
From Coq Require Import List Arith Bool Lia.
Import ListNotations.

Definition sid := nat.
Definition phase := (list sid * bool)%type.          (* states in order, loop flag; states non-empty *)

(* assoc list with "latest binding wins" = attribute assignment *)
Definition amap := list (sid * sid).
Fixpoint lookup (m : amap) (s : sid) : option sid :=
  match m with [] => None | (a, b) :: r => if a =? s then Some b else lookup r s end.

(* LifeCyclePhase.__init__: chain the states; loop: last -> first *)
Fixpoint chain (sts : list sid) (m : amap) : amap :=
  match sts with
  | a :: ((b :: _) as r) => chain r ((a, b) :: m)
  | _ => m
  end.
Definition last_of (sts : list sid) : option sid := match rev sts with [] => None | x :: _ => Some x end.
Definition first_of (sts : list sid) : option sid := match sts with [] => None | x :: _ => Some x end.

Record links := { nxt : amap; lnxt : amap; prev_last : option sid }.
Definition empty_links := {| nxt := []; lnxt := []; prev_last := None |}.

(* LifeCycle.add_phase (validation elided here; modelled separately as NoDup of all state names) *)
Definition add_phase (l : links) (p : phase) : links :=
  let '(sts, lp) := p in
  let n1 := chain sts (nxt l) in
  let ln := match lp, last_of sts, first_of sts with true, Some z, Some a => (z, a) :: lnxt l | _, _, _ => lnxt l end in
  let n2 := match prev_last l, first_of sts with Some z, Some a => (z, a) :: n1 | _, _ => n1 end in
  {| nxt := n2; lnxt := ln; prev_last := match last_of sts with Some z => Some z | None => prev_last l end |}.
Definition build (ps : list phase) : links := fold_left add_phase ps empty_links.

Definition valid_next (l : links) (cur new : sid) : bool :=
  match lookup (nxt l) cur with Some x => x =? new | None => false end
  || match lookup (lnxt l) cur with Some x => x =? new | None => false end.

(* declarative order *)
Definition flat (ps : list phase) : list sid := flat_map fst ps.
Definition follows (l : list sid) (s s' : sid) : Prop := exists l1 l2, l = l1 ++ s :: s' :: l2.
Definition legal_succ (ps : list phase) (s s' : sid) : Prop :=
  follows (flat ps) s s' \/ exists sts, In (sts, true) ps /\ last_of sts = Some s /\ first_of sts = Some s'.

(* the engine's lifecycle *)
Definition engine : list phase :=
  [ ([0], false); ([1;2;3], false); ([4;5;6;7], true); ([8;9], false) ].
Eval vm_compute in (map (fun s => (s, filter (valid_next (build engine) s) (seq 0 10))) (seq 0 10)).

(* ---- lookup of the built nxt = "follows in flat", under NoDup ---- *)
Fixpoint pairs (l : list sid) : amap :=
  match l with a :: ((b :: _) as r) => (a, b) :: pairs r | _ => [] end.

Lemma lookup_pairs l : NoDup l -> forall s s', lookup (pairs l) s = Some s' <-> follows l s s'.
Proof.
  induction l as [|a [|b r] IH]; intros Hn s s'; simpl.
  - split; [discriminate|]. intros [l1 [l2 H]]. destruct l1; discriminate.
  - split; [discriminate|]. intros [l1 [l2 H]]. destruct l1 as [|x [|y l1]]; discriminate.
  - inversion Hn as [|? ? Ha Hn']; subst. destruct (a =? s) eqn:E.
    + apply Nat.eqb_eq in E. subst a. split.
      * intros [= <-]. exists [], r. reflexivity.
      * intros [l1 [l2 H]]. destruct l1 as [|x l1]; simpl in H.
        { now inversion H. }
        { exfalso. inversion H; subst. apply Ha. rewrite H2. apply in_or_app. right. simpl; auto. }
    + apply Nat.eqb_neq in E. rewrite (IH Hn'). split.
      * intros [l1 [l2 H]]. exists (a :: l1), l2. simpl. now rewrite H.
      * intros [l1 [l2 H]]. destruct l1 as [|x l1]; simpl in H; inversion H; subst; [congruence|]. now exists l1, l2.
Qed.
Print Assumptions lookup_pairs.
