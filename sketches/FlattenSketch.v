(* Feasibility sketch for C20: ComponentManager._flatten (explicit stack, reversed pushes) = pre-order traversal. *)
From Coq Require Import List Arith Lia.
Import ListNotations.

(* a supplied item is a component with sub-components, or a (possibly nested) list/tuple of items *)
Inductive item := Comp (name : nat) (subs : list item) | Group (members : list item).

(* specification: pre-order, parents first, siblings in order, groups spliced *)
Fixpoint pre (i : item) : list nat :=
  match i with
  | Comp n subs => n :: flat_map pre subs
  | Group ms => flat_map pre ms
  end.
Definition pre_all (is : list item) : list nat := flat_map pre is.

(* the code:   components = components[::-1]
               while components: current = components.pop()
                   list/tuple -> components.extend(current[::-1])
                   Component  -> components.extend(current.sub_components[::-1]); out.append(current)
   The python list is a stack whose top is its END; we keep the stack as a Coq list whose HEAD is the top,
   so "extend(xs[::-1])" becomes "xs ++ stack". *)
Fixpoint flatten_stack (fuel : nat) (stack : list item) (out : list nat) : option (list nat) :=
  match stack with
  | [] => Some out
  | cur :: rest =>
      match fuel with
      | O => None
      | S f => match cur with
               | Group ms => flatten_stack f (ms ++ rest) out
               | Comp n subs => flatten_stack f (subs ++ rest) (out ++ [n])
               end
      end
  end.

(* number of pops needed *)
Fixpoint size (i : item) : nat :=
  match i with
  | Comp _ subs => S (list_sum (map size subs))
  | Group ms => S (list_sum (map size ms))
  end.
Definition size_all (is : list item) : nat := list_sum (map size is).

Lemma size_all_app a b : size_all (a ++ b) = size_all a + size_all b.
Proof. unfold size_all. rewrite map_app. induction (map size a); simpl; lia. Qed.
Lemma pre_all_app a b : pre_all (a ++ b) = pre_all a ++ pre_all b.
Proof. unfold pre_all. apply flat_map_app. Qed.

Theorem flatten_is_preorder : forall fuel stack out,
  size_all stack <= fuel -> flatten_stack fuel stack out = Some (out ++ pre_all stack).
Proof.
  induction fuel as [|f IH]; intros stack out Hf.
  - destruct stack as [|cur rest]; simpl; [now rewrite app_nil_r|].
    exfalso. unfold size_all in Hf. simpl in Hf. destruct cur; simpl in Hf; lia.
  - destruct stack as [|cur rest]; simpl; [now rewrite app_nil_r|].
    destruct cur as [n subs|ms].
    + rewrite IH.
      * rewrite pre_all_app. unfold pre_all at 3. simpl. fold (pre_all subs). fold (pre_all rest).
        now rewrite <- !app_assoc.
      * rewrite size_all_app. unfold size_all in *. simpl in Hf. lia.
    + rewrite IH.
      * rewrite pre_all_app. unfold pre_all at 3. simpl. fold (pre_all ms). fold (pre_all rest). reflexivity.
      * rewrite size_all_app. unfold size_all in *. simpl in Hf. lia.
Qed.

Corollary flatten_top (is : list item) : flatten_stack (size_all is) is [] = Some (pre_all is).
Proof. now rewrite flatten_is_preorder. Qed.

(* parent before child, directly from the shape of pre *)
Lemma parent_first n subs : exists tl, pre (Comp n subs) = n :: tl /\ tl = pre_all subs.
Proof. eexists; split; reflexivity. Qed.
Print Assumptions flatten_top.
Eval vm_compute in flatten_stack 20 [Comp 1 [Comp 2 [Comp 3 []]; Comp 4 []]; Group [Comp 5 []; Group [Comp 6 [Comp 7 []]]]] [].
