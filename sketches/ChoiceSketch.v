(* Feasibility sketch for C05: inverse-CDF choice over integers (no Q): weights w_j >= 0, draw = a/b, 0 <= a < b. *)
From Coq Require Import List ZArith Bool Lia.
Import ListNotations.
Open Scope Z_scope.

Fixpoint sumZ (l : list Z) : Z := match l with [] => 0 | x :: r => x + sumZ r end.

(* number of cumulative bins strictly below the draw:  draw > cum_j / W   <=>   a * W > cum_j * b *)
Fixpoint count_below (a b W : Z) (acc : Z) (ws : list Z) : nat :=
  match ws with
  | [] => O
  | w :: r => let c := acc + w in
              ((if a * W >? c * b then 1 else 0) + count_below a b W c r)%nat
  end.
Definition choice (a b : Z) (ws : list Z) : nat := count_below a b (sumZ ws) 0 ws.

Eval vm_compute in (choice 0 8 [0;1], choice 1 8 [0;1], choice 4 8 [1;1], choice 5 8 [1;1], choice 7 8 [1;0;1]).

Definition nonneg (ws : list Z) := Forall (fun w => 0 <= w) ws.

(* Once the draw is not above a bin it is not above any later bin (bins are non-decreasing). *)
Lemma count_below_zero a b W : 0 <= b -> forall ws acc, nonneg ws -> a * W <= acc * b -> count_below a b W acc ws = O.
Proof.
  intros Hb. induction ws as [|w r IH]; intros acc Hn Hle; simpl; [reflexivity|].
  inversion Hn; subst.
  assert (a * W <= (acc + w) * b) by nia.
  destruct (a * W >? (acc + w) * b) eqn:E; [apply Z.gtb_lt in E; lia|].
  simpl. apply IH; auto.
Qed.

(* characterisation: choice = k  <->  cum_{k-1} < draw <= cum_k  (cum_{-1} = -infinity) *)
Definition cum (ws : list Z) (k : nat) : Z := sumZ (firstn (S k) ws).

Lemma count_below_spec a b W : 0 < b -> forall ws acc k, nonneg ws ->
  count_below a b W acc ws = k -> (k < length ws)%nat ->
  a * W <= (acc + cum ws k) * b /\ (forall j, (j < k)%nat -> a * W > (acc + cum ws j) * b).
Proof.
  intros Hb. induction ws as [|w r IH]; intros acc k Hn Hc Hk; simpl in *; [lia|].
  pose proof (Forall_inv Hn) as Hw. pose proof (Forall_inv_tail Hn) as Hr. simpl in Hw.
  destruct (Z.gtb_spec (a * W) ((acc + w) * b)) as [E|E].
  - destruct k as [|k]; [discriminate|]. simpl in Hc. injection Hc as Hc.
    destruct (IH (acc + w) k Hr Hc ltac:(lia)) as [A B].
    unfold cum in *. cbn [firstn sumZ] in *. split.
    + rewrite Z.add_assoc. exact A.
    + intros j Hj. destruct j as [|j]; cbn [firstn sumZ].
      * lia.
      * specialize (B j ltac:(lia)). rewrite Z.add_assoc. exact B.
  - simpl in Hc.
    assert (Hz : count_below a b W (acc + w) r = O) by (apply count_below_zero; auto; lia).
    rewrite Hz in Hc. subst k. unfold cum. cbn [firstn sumZ]. split; [lia|intros; lia].
Qed.

(* never picks a zero-weight option, except the documented corner (draw = 0 and it is option 0) *)
Lemma cum_S ws k : (S k < length ws)%nat -> cum ws (S k) = cum ws k + nth (S k) ws 0.
Proof.
  unfold cum. revert k. induction ws as [|w r IH]; intros k Hk; simpl in *; [lia|].
  destruct r as [|w' r']; simpl in *; [lia|].
  destruct k as [|k]; simpl.
  - lia.
  - specialize (IH k ltac:(lia)). simpl in IH. lia.
Qed.

Theorem choice_nonzero a b ws k : 0 < b -> 0 <= a -> nonneg ws -> (k < length ws)%nat ->
  choice a b ws = k -> nth k ws 0 = 0 -> k = O /\ a * sumZ ws = 0.
Proof.
  intros Hb Ha Hn Hk Hc Hz. unfold choice in Hc.
  destruct (count_below_spec a b (sumZ ws) Hb ws 0 k Hn Hc Hk) as [A B].
  destruct k as [|k].
  - split; [reflexivity|]. unfold cum in A. destruct ws as [|w r]; simpl in *; [lia|]. subst w.
    assert (0 <= sumZ r). { clear -Hn. apply Forall_inv_tail in Hn. induction r; simpl; [lia|]. pose proof (Forall_inv Hn). apply Forall_inv_tail in Hn. simpl in *. specialize (IHr Hn). lia. }
    nia.
  - exfalso. specialize (B k ltac:(lia)). rewrite (cum_S ws k Hk), Hz in A. lia.
Qed.
Print Assumptions choice_nonzero.
