(* Feasibility sketch for C03: drop_duplicates(keep=first) + salted re-hash loop: injective, stable, complete. *)
From Coq Require Import List ZArith Bool Lia.
Import ListNotations.
Open Scope Z_scope.

Definition key := Z.
Definition entry := (key * Z)%type.
Definition memZ (x : Z) (l : list Z) : bool := existsb (Z.eqb x) l.
Lemma memZ_In x l : memZ x l = true <-> In x l.
Proof. unfold memZ. rewrite existsb_exists. split.
  - intros [y [Hy He]]. apply Z.eqb_eq in He. now subst.
  - intros H. exists x. split; auto. apply Z.eqb_refl. Qed.
Lemma memZ_nIn x l : memZ x l = false <-> ~ In x l.
Proof. rewrite <- memZ_In. destruct (memZ x l); split; congruence. Qed.

Section Resolve.
Variable h : key -> Z -> Z.      (* position of key under a salt; abstract here, concrete (wrap64, mod size) in the model *)

Definition keys (l : list entry) := map fst l.
Definition poss (l : list entry) := map snd l.

(* pandas Series.drop_duplicates(): drop rows whose VALUE was seen before, keep the first *)
Fixpoint dedup (seen : list Z) (l : list entry) : list entry :=
  match l with
  | [] => []
  | (k, p) :: l' => if memZ p seen then dedup seen l' else (k, p) :: dedup (p :: seen) l'
  end.

Fixpoint resolve (fuel : nat) (salt : Z) (coll : list key) (cur : list entry) : option (list entry) :=
  match coll with
  | [] => Some cur
  | _ => match fuel with
         | O => None
         | S f =>
             let upd := map (fun k => (k, h k salt)) coll in
             let cur' := dedup [] (cur ++ upd) in
             resolve f (salt + 1) (filter (fun k => negb (memZ k (keys cur'))) coll) cur'
         end
  end.

Definition build (fuel : nat) (old : list entry) (new : list key) (t : Z) : option (list entry) :=
  let cur := dedup [] (old ++ map (fun k => (k, h k t)) new) in
  resolve fuel 1 (filter (fun k => negb (memZ k (keys cur))) new) cur.

(* ---- dedup facts ---- *)
Lemma dedup_poss_nodup l : forall seen, NoDup (poss (dedup seen l)) /\ forall p, In p (poss (dedup seen l)) -> ~ In p seen.
Proof.
  induction l as [|[k p] l IH]; intros seen; simpl.
  - split; [constructor|contradiction].
  - destruct (memZ p seen) eqn:E.
    + apply IH.
    + destruct (IH (p :: seen)) as [Hn Hs]. simpl. split.
      * constructor; auto. intro Hi. apply (Hs p Hi). simpl; auto.
      * intros q [<-|Hq]; [now apply memZ_nIn|]. intro Hq'. apply (Hs q Hq). simpl; auto.
Qed.

Lemma dedup_incl l : forall seen e, In e (dedup seen l) -> In e l.
Proof. induction l as [|[k p] l IH]; intros seen e; simpl; [auto|].
  destruct (memZ p seen); [right; eauto|]. intros [<-|H]; [auto|right; eauto]. Qed.

(* a prefix whose positions are duplicate-free and unseen survives unchanged *)
Lemma dedup_prefix l1 l2 : forall seen,
  NoDup (poss l1) -> (forall p, In p (poss l1) -> ~ In p seen) ->
  dedup seen (l1 ++ l2) = l1 ++ dedup (rev (poss l1) ++ seen) l2.
Proof.
  induction l1 as [|[k p] l1 IH]; intros seen Hn Hs; simpl; [reflexivity|].
  inversion Hn as [|? ? Hp Hn']; subst.
  assert (E : memZ p seen = false) by (apply memZ_nIn, Hs; simpl; auto).
  rewrite E. f_equal. rewrite IH; auto.
  - now rewrite <- app_assoc.
  - intros q Hq [<-|Hq']; [contradiction|]. apply (Hs q); simpl; auto.
Qed.

(* ---- the loop ---- *)
Lemma resolve_spec fuel : forall salt coll cur res,
  NoDup (poss cur) ->
  resolve fuel salt coll cur = Some res ->
  NoDup (poss res) /\ (exists ext, res = cur ++ ext) /\
  (forall k, In k coll -> In k (keys res)).
Proof.
  induction fuel as [|f IH]; intros salt coll cur res Hn; simpl.
  - destruct coll; [|discriminate]. intros [= <-]. repeat split; auto.
    + exists []. now rewrite app_nil_r.
    + contradiction.
  - destruct coll as [|c coll']; [intros [= <-]; repeat split; auto; [exists []; now rewrite app_nil_r|contradiction]|].
    set (coll := c :: coll') in *.
    set (upd := map (fun k => (k, h k salt)) coll).
    set (cur' := dedup [] (cur ++ upd)).
    intros Hr.
    assert (Hcur' : cur' = cur ++ dedup (rev (poss cur) ++ []) upd).
    { unfold cur'. apply dedup_prefix; auto. }
    assert (Hn' : NoDup (poss cur')) by (apply (dedup_poss_nodup _ [])).
    destruct (IH _ _ _ _ Hn' Hr) as [R1 [[ext R2] R3]].
    repeat split; auto.
    + exists (dedup (rev (poss cur) ++ []) upd ++ ext). rewrite R2, Hcur'. now rewrite <- app_assoc.
    + intros k Hk.
      destruct (memZ k (keys cur')) eqn:E.
      * apply memZ_In in E. rewrite R2. unfold keys. rewrite map_app. apply in_or_app. now left.
      * apply R3. apply filter_In. split; auto. now rewrite E.
Qed.

Theorem build_spec fuel old new t res :
  NoDup (poss old) -> build fuel old new t = Some res ->
  NoDup (poss res)                                   (* injective *)
  /\ (exists ext, res = old ++ ext)                  (* stable: old entries keep key and position *)
  /\ (forall k, In k new -> In k (keys res)).        (* complete *)
Proof.
  unfold build. intros Hn Hr.
  set (cur := dedup [] (old ++ map (fun k => (k, h k t)) new)) in *.
  assert (Hcur : cur = old ++ dedup (rev (poss old) ++ []) (map (fun k => (k, h k t)) new)) by (apply dedup_prefix; auto).
  assert (Hn' : NoDup (poss cur)) by apply (dedup_poss_nodup _ []).
  destruct (resolve_spec _ _ _ _ _ Hn' Hr) as [R1 [[ext R2] R3]].
  repeat split; auto.
  - exists (dedup (rev (poss old) ++ []) (map (fun k => (k, h k t)) new) ++ ext). rewrite R2, Hcur. now rewrite <- app_assoc.
  - intros k Hk. destruct (memZ k (keys cur)) eqn:E.
    + apply memZ_In in E. rewrite R2. unfold keys. rewrite map_app. apply in_or_app. now left.
    + apply R3. apply filter_In. split; auto. now rewrite E.
Qed.
End Resolve.
Print Assumptions build_spec.
