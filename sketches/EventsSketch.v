(* Feasibility sketch for C08: 10 priority buckets, emit order; run() step count. *)
From Coq Require Import List ZArith Arith Bool Lia Permutation Sorted.
Import ListNotations.

(* ---- buckets ---- *)
Definition lid := nat.
Definition buckets := list (list lid).                       (* always length 10 *)
Definition empty : buckets := repeat [] 10.
Fixpoint add_at (p : nat) (l : lid) (b : buckets) : buckets :=
  match b, p with
  | [], _ => []                                              (* IndexError in the code: priority out of range *)
  | x :: r, O => (x ++ [l]) :: r
  | x :: r, S p' => x :: add_at p' l r
  end.
Definition register (b : buckets) (reg : nat * lid) : buckets := add_at (fst reg) (snd reg) b.
Definition emit (b : buckets) : list lid := concat b.

(* spec: stable sort of the registrations by priority *)
Definition of_prio (p : nat) (regs : list (nat * lid)) : list lid := map snd (filter (fun r => fst r =? p) regs).
Definition spec (regs : list (nat * lid)) : list lid := flat_map (fun p => of_prio p regs) (seq 0 10).

Lemma add_at_nth p l b : p < length b -> forall q, nth q (add_at p l b) [] = if q =? p then nth q b [] ++ [l] else nth q b [].
Proof. revert p. induction b as [|x r IH]; intros p Hp q; simpl in *; [lia|].
  destruct p as [|p]; destruct q as [|q]; simpl; auto. apply IH. lia. Qed.
Lemma add_at_len p l b : length (add_at p l b) = length b.
Proof. revert p. induction b as [|x r IH]; intros [|p]; simpl; auto. Qed.

Lemma register_eq b p l : register b (p, l) = add_at p l b. Proof. reflexivity. Qed.
Lemma buckets_spec_rev rr : Forall (fun r => fst r < 10) rr ->
  let b := fold_left register (rev rr) empty in
  length b = 10 /\ forall q, q < 10 -> nth q b [] = of_prio q (rev rr).
Proof.
  induction rr as [|[p l] rr IH]; intros H; simpl.
  - split; [reflexivity|]. intros q Hq. do 10 (destruct q as [|q]; [reflexivity|]). lia.
  - inversion H as [|? ? Hp H']; subst. destruct (IH H') as [Hl Hn]. simpl in Hp.
    rewrite fold_left_app. cbn [fold_left]. rewrite register_eq.
    split; [now rewrite add_at_len|].
    intros q Hq. rewrite add_at_nth by lia. unfold of_prio. rewrite filter_app, map_app. cbn [filter fst snd map].
    destruct (q =? p) eqn:E.
    + apply Nat.eqb_eq in E. subst q. rewrite Nat.eqb_refl. cbn [map]. now rewrite Hn.
    + rewrite Nat.eqb_sym in E. rewrite E. cbn [map]. rewrite app_nil_r. now apply Hn.
Qed.
Lemma buckets_spec regs : Forall (fun r => fst r < 10) regs ->
  let b := fold_left register regs empty in
  length b = 10 /\ forall q, q < 10 -> nth q b [] = of_prio q regs.
Proof. intros H. rewrite <- (rev_involutive regs). apply buckets_spec_rev. now apply Forall_rev. Qed.

Lemma flat_nth_shift (x : list lid) r n : forall s,
  flat_map (fun q => nth q (x :: r) []) (seq (S s) n) = flat_map (fun q => nth q r []) (seq s n).
Proof. induction n as [|n IH]; intros s; simpl; [reflexivity|]. now rewrite IH. Qed.
Lemma fm_cons (A B : Type) (f : A -> list B) a l : flat_map f (a :: l) = f a ++ flat_map f l. Proof. reflexivity. Qed.
Lemma concat_nth_seq (b : buckets) n : length b = n -> concat b = flat_map (fun q => nth q b []) (seq 0 n).
Proof. revert n. induction b as [|x r IH]; intros n Hn; subst; [reflexivity|]. cbn [length concat].
  rewrite <- cons_seq. rewrite fm_cons. change (nth 0 (x :: r) []) with x. f_equal. rewrite flat_nth_shift. now apply IH. Qed.

Theorem emit_is_spec regs : Forall (fun r => fst r < 10) regs -> emit (fold_left register regs empty) = spec regs.
Proof. intros H. destruct (buckets_spec regs H) as [Hl Hn]. unfold emit, spec. rewrite (concat_nth_seq _ 10 Hl).
  rewrite !flat_map_concat_map. f_equal. apply map_ext_in. intros q Hq. apply in_seq in Hq. apply Hn. lia. Qed.

(* ---- run(): while clock < stop: step ---- *)
Open Scope Z_scope.
Fixpoint run (fuel : nat) (t stop s : Z) (n : Z) : Z * Z :=       (* returns (final clock, steps taken) *)
  match fuel with O => (t, n) | S f => if t <? stop then run f (t + s) stop s (n + 1) else (t, n) end.

Lemma run_count : forall fuel t stop s n, 0 < s ->
  (stop - t + s - 1) / s <= Z.of_nat fuel ->
  run fuel t stop s n = if t <? stop then (t + s * ((stop - t + s - 1) / s), n + (stop - t + s - 1) / s) else (t, n).
Proof.
  induction fuel as [|f IH]; intros t stop s n Hs Hf; simpl.
  - destruct (Z.ltb_spec t stop); [|reflexivity]. exfalso.
    assert (1 <= (stop - t + s - 1) / s) by (apply Z.div_le_lower_bound; lia). lia.
  - destruct (Z.ltb_spec t stop) as [Hlt|Hge]; [|reflexivity].
    assert (Hk : (stop - t + s - 1) / s = 1 + (stop - (t + s) + s - 1) / s).
    { replace (stop - t + s - 1) with (1 * s + (stop - (t + s) + s - 1)) by lia. rewrite Z.div_add_l by lia. lia. }
    rewrite IH; [|lia|lia].
    destruct (Z.ltb_spec (t + s) stop) as [H2|H2].
    + f_equal; rewrite Hk; lia.
    + assert (Hz : (stop - (t + s) + s - 1) / s = 0) by (apply Z.div_small; lia).
      rewrite Hk, Hz. f_equal; lia.
Qed.
Print Assumptions emit_is_spec. Print Assumptions run_count.
