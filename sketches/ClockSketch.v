(* Feasibility sketch for C10: per-simulant clocks. One model, parametrised by the guard the code uses
   ("index.any()" today, "not index.empty" after the fix): refutation under the first, invariant under the second. *)
From Coq Require Import List ZArith Bool Lia.
Import ListNotations.
Open Scope Z_scope.

Record row := { lbl : Z; nxt : Z; stp : Z }.
Record clk := { T : Z; S : Z; E : Z; m : Z; rows : list row; snooze : list Z }.

Definition memZ (x : Z) (l : list Z) : bool := existsb (Z.eqb x) l.

(* pandas Index.any(): truthiness of the LABELS *)
Definition pd_any (idx : list Z) : bool := existsb (fun l => negb (l =? 0)) idx.
Definition nonempty (idx : list Z) : bool := match idx with [] => false | _ => true end.

Definition minl (d : Z) (l : list Z) : Z := fold_right Z.min d l.
Definition min_next (rs : list row) : Z := match rs with [] => 0 | r :: rs' => minl (nxt r) (map nxt rs') end.

(* req l = post-processed pipeline value for simulant l at this update (already a positive multiple of m) *)
Definition update_row (req : Z -> Z) (c : clk) (T' : Z) (r : row) : row :=
  if nxt r <=? T' then
    let s := if memZ (lbl r) (snooze c) then E c + m c - T' else req (lbl r) in
    {| lbl := lbl r; nxt := T' + s; stp := s |}
  else r.

Definition step_forward (guard : list Z -> bool) (req : Z -> Z) (c : clk) : clk :=
  let T' := T c + S c in
  let idx := map lbl (rows c) in
  if guard idx then
    let rs := map (update_row req c T') (rows c) in
    {| T := T'; S := min_next rs - T'; E := E c; m := m c; rows := rs; snooze := [] |}
  else {| T := T'; S := S c; E := E c; m := m c; rows := rows c; snooze := snooze c |}.

Definition active (c : clk) : list Z := map lbl (filter (fun r => nxt r <=? T c + S c) (rows c)).

(* the invariant at a step boundary *)
Definition Inv (c : clk) : Prop :=
  rows c <> [] /\ (forall r, In r (rows c) -> T c < nxt r) /\ S c = min_next (rows c) - T c.

(* ---- refutation under today's guard: population {0} with a 3-tick modifier never leaves the 1-tick step ---- *)
Definition c0 : clk := {| T := 0; S := 1; E := 10; m := 1; rows := [ {| lbl := 0; nxt := 1; stp := 1 |} ]; snooze := [] |}.
Example inv_c0 : Inv c0.
Proof. unfold Inv, c0; simpl. split; [congruence|]. split; [|reflexivity]. intros r [<-|[]]; simpl; lia. Qed.
Theorem invariant_refuted_singleton0 : exists c, Inv c /\ ~ Inv (step_forward pd_any (fun _ => 3) c).
Proof. exists c0. split; [apply inv_c0|]. unfold Inv. vm_compute. intros [_ [H _]].
  specialize (H {| lbl := 0; nxt := 1; stp := 1 |} (or_introl eq_refl)). simpl in H. discriminate H. Qed.

(* ---- invariant under the repaired guard ---- *)
Lemma minl_le d l : forall x, In x (d :: l) -> minl d l <= x.
Proof. unfold minl. induction l as [|y l IH]; intros x Hx; simpl in *.
  - destruct Hx as [<-|[]]. lia.
  - destruct Hx as [<-|[<-|Hx]].
    + specialize (IH d (or_introl eq_refl)). lia.
    + lia.
    + specialize (IH x (or_intror Hx)). lia. Qed.
Lemma minl_in d l : In (minl d l) (d :: l).
Proof. unfold minl. induction l as [|y l IH]; simpl; [auto|].
  destruct (Z.min_spec y (fold_right Z.min d l)) as [[_ ->]|[_ ->]]; [auto|].
  destruct IH as [H|H]; [left; exact H|right; right; exact H]. Qed.
Lemma min_next_le rs r : In r rs -> min_next rs <= nxt r.
Proof. destruct rs as [|r0 rs]; [contradiction|]. intros H. unfold min_next. apply minl_le.
  destruct H as [<-|H]; [left; reflexivity|right; now apply in_map]. Qed.
Lemma min_next_in rs : rs <> [] -> exists r, In r rs /\ nxt r = min_next rs.
Proof. destruct rs as [|r0 rs]; [congruence|]. intros _. unfold min_next.
  destruct (minl_in (nxt r0) (map nxt rs)) as [H|H].
  - exists r0. split; [left; reflexivity|auto].
  - apply in_map_iff in H as [r [Hr Hi]]. exists r. split; [right; auto|auto]. Qed.

Theorem invariant_preserved req c :
  (forall l, 0 < req l) -> 0 < m c ->
  Inv c -> T c + S c < E c ->                      (* the boundaries from which run() continues *)
  Inv (step_forward nonempty req c).
Proof.
  intros Hreq Hm [Hne [Hlt HS]] Hend. unfold step_forward.
  assert (Hg : nonempty (map lbl (rows c)) = true) by (destruct (rows c); [congruence|reflexivity]).
  rewrite Hg. unfold Inv; simpl. set (T' := T c + S c).
  assert (Hall : forall r, In r (rows c) -> T' <= nxt r).
  { intros r Hr. unfold T'. rewrite HS. pose proof (min_next_le _ _ Hr). lia. }
  split; [|split].
  - destruct (rows c); [congruence|simpl; congruence].
  - intros r' Hr'. apply in_map_iff in Hr' as [r [<- Hr]]. unfold update_row.
    destruct (nxt r <=? T') eqn:Ed.
    + simpl. destruct (memZ (lbl r) (snooze c)); [lia|]. specialize (Hreq (lbl r)). lia.
    + apply Z.leb_gt in Ed. exact Ed.
  - reflexivity.
Qed.

(* the event of the next step contains exactly the simulants whose time has been reached: next = T + S *)
Corollary active_exact c r : Inv c -> In r (rows c) -> (nxt r <=? T c + S c) = true <-> nxt r = T c + S c.
Proof. intros [_ [_ HS]] Hr. rewrite Z.leb_le. pose proof (min_next_le _ _ Hr). lia. Qed.
Print Assumptions invariant_preserved.
