(* Feasibility sketch for C09: networkx topological_sort (Kahn, FIFO) as a Gallina function + soundness. *)
From Coq Require Import List Arith Bool Lia Permutation.
Import ListNotations.

Definition node := nat.
Definition edge := (node * node)%type.

Section Kahn.
Variable nodes : list node.
Variable edges : list edge.

Definition succs (u : node) : list node := map snd (filter (fun e => fst e =? u) edges).
Definition preds (v : node) : list node := map fst (filter (fun e => snd e =? v) edges).
Definition indeg0 (v : node) : nat := length (preds v).

Definition upd (m : node -> nat) (k : node) (x : nat) : node -> nat :=
  fun v => if v =? k then x else m v.

(* for child in G.neighbors(node): indegree_map[child] -= 1; if == 0: zero_indegree.append(child) *)
Fixpoint dec_all (m : node -> nat) (cs : list node) (q : list node) : (node -> nat) * list node :=
  match cs with
  | [] => (m, q)
  | c :: cs' =>
      let m' := upd m c (m c - 1) in
      if m' c =? 0 then dec_all m' cs' (q ++ [c]) else dec_all m' cs' q
  end.

Fixpoint loop (fuel : nat) (m : node -> nat) (q out : list node) : list node :=
  match fuel with
  | 0 => out
  | S f => match q with
           | [] => out
           | u :: q' => let '(m', q'') := dec_all m (succs u) q' in loop f m' q'' (out ++ [u])
           end
  end.

Definition kahn : option (list node) :=
  let q0 := filter (fun v => indeg0 v =? 0) nodes in
  let out := loop (length nodes) indeg0 q0 [] in
  if length out =? length nodes then Some out else None.
End Kahn.

Eval vm_compute in kahn [0;1;2;3;4] [(0,2);(1,2);(2,3);(0,4)].
Eval vm_compute in kahn [0;1;2] [(0,1);(1,2);(2,1)].
