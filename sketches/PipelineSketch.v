(* Feasibility sketch for C14: a pipeline call logs Src, each Mod once in registration order, then Post. *)
From Coq Require Import List Arith Bool Lia.
Import ListNotations.

Section Pipe.
Variables (arg val : Type).
Definition mid := nat.
Inductive ev := Src | Mod (m : mid) | Post.

Variable src : arg -> val.
Variable modf : mid -> arg -> val -> val.          (* replace_combiner: the mutator gets the args, then the previous value *)
Variable post : val -> val.

Record pipeline := { has_source : bool; mutators : list mid; has_post : bool }.

Definition call (p : pipeline) (a : arg) (skip : bool) : option (list ev * val) :=
  if has_source p then
    let '(tr, v) := fold_left (fun tv m => (fst tv ++ [Mod m], modf m a (snd tv))) (mutators p) ([Src], src a) in
    if has_post p && negb skip then Some (tr ++ [Post], post v) else Some (tr, v)
  else None.

Lemma fold_split a ms : forall tr v,
  fold_left (fun tv m => (fst tv ++ [Mod m], modf m a (snd tv))) ms (tr, v)
  = (tr ++ map Mod ms, fold_left (fun x m => modf m a x) ms v).
Proof. induction ms as [|m r IH]; intros tr v; simpl; [now rewrite app_nil_r|]. rewrite IH. now rewrite <- app_assoc. Qed.

Theorem call_trace p a skip : has_source p = true ->
  call p a skip = Some (([Src] ++ map Mod (mutators p)) ++ (if has_post p && negb skip then [Post] else []),
                        (if has_post p && negb skip then post else fun v => v)
                          (fold_left (fun x m => modf m a x) (mutators p) (src a))).
Proof. intros Hs. unfold call. rewrite Hs, fold_split. destruct (has_post p && negb skip); [reflexivity|]. now rewrite app_nil_r. Qed.

(* registry: modifiers accumulate in registration order, from any component, before or after the source *)
Inductive op := RegProducer (withpost : bool) | RegModifier (m : mid).
Definition reg (p : pipeline) (o : op) : pipeline * bool :=
  match o with
  | RegProducer wp => if has_source p then (p, false)          (* DynamicValueError, registry unchanged *)
                      else ({| has_source := true; mutators := mutators p; has_post := wp |}, true)
  | RegModifier m => ({| has_source := has_source p; mutators := mutators p ++ [m]; has_post := has_post p |}, true)
  end.
Definition mods_of (ops : list op) : list mid := flat_map (fun o => match o with RegModifier m => [m] | _ => [] end) ops.
Theorem registry_order ops : forall p, mutators (fold_left (fun q o => fst (reg q o)) ops p) = mutators p ++ mods_of ops.
Proof. induction ops as [|o r IH]; intros p; simpl; [now rewrite app_nil_r|]. rewrite IH.
  destruct o as [wp|m]; simpl; [destruct (has_source p); simpl; reflexivity|now rewrite <- app_assoc]. Qed.
End Pipe.
Print Assumptions call_trace. Print Assumptions registry_order.
