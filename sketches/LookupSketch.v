(* Feasibility sketch for C15: np.digitize(x, left_edges) with the "idx>0 -> idx-1" clamp selects the half-open bin. *)
From Coq Require Import List ZArith Bool Lia Sorted.
Import ListNotations.
Open Scope Z_scope.

(* np.digitize(x, bins) with right=False on increasing bins: number of bins b with b <= x *)
Fixpoint digitize (x : Z) (bins : list Z) : nat :=
  match bins with [] => O | b :: r => ((if (b <=? x)%Z then 1 else 0) + digitize x r)%nat end.
Definition clamp (i : nat) : nat := match i with O => O | S j => j end.     (* bin_indices[bin_indices > 0] -= 1 *)
Definition bin_of (x : Z) (bins : list Z) : nat := clamp (digitize x bins).

Eval vm_compute in map (fun x => bin_of x [0; 5; 10]) [-3; 0; 4; 5; 9; 10; 99].

Definition increasing (l : list Z) := StronglySorted Z.lt l.

(* once a bin edge is above x, so are all later ones *)
Lemma digitize_zero x bins : increasing bins -> (forall b, In b bins -> x < b) -> digitize x bins = O.
Proof. induction bins as [|b r IH]; intros Hs Hall; simpl; [reflexivity|].
  assert (x < b) by (apply Hall; simpl; auto). destruct (Z.leb_spec b x); [lia|]. simpl.
  apply IH; [now inversion Hs|]. intros; apply Hall; simpl; auto. Qed.

(* digitize x bins = k  <->  the first k edges are <= x and the rest are > x *)
Lemma digitize_spec x : forall bins, increasing bins ->
  let k := digitize x bins in
  (forall j, (j < k)%nat -> nth j bins 0 <= x) /\ (forall j, (k <= j < length bins)%nat -> x < nth j bins 0).
Proof.
  induction bins as [|b r IH]; intros Hs; simpl.
  - split; intros; lia.
  - inversion Hs as [|? ? Hs' Hb]; subst. destruct (Z.leb_spec b x) as [Hle|Hgt]; simpl.
    + destruct (IH Hs') as [A B]. split.
      * intros [|j] Hj; [exact Hle|]. apply A. lia.
      * intros [|j] Hj; [lia|]. apply B. lia.
    + assert (Hz : digitize x r = O).
      { apply digitize_zero; auto. intros b' Hb'. rewrite Forall_forall in Hb. specialize (Hb b' Hb'). lia. }
      rewrite Hz. split; [intros; lia|].
      intros [|j] Hj; [exact Hgt|].
      assert (In (nth j r 0) r) by (apply nth_In; simpl in Hj; lia).
      rewrite Forall_forall in Hb. specialize (Hb _ H). lia.
Qed.

(* the property: with left edges e_0 < e_1 < ... < e_{n-1} and right end R (= e_n), for e_0 <= x < R the selected
   bin i satisfies e_i <= x < e_{i+1} (or < R for the last); below the range bin 0, above it the last bin. *)
Theorem bin_membership x bins R : increasing bins -> bins <> [] ->
  (forall b, In b bins -> b < R) ->
  let i := bin_of x bins in
  (i < length bins)%nat /\
  (nth 0 bins 0 <= x -> x < R ->
     nth i bins 0 <= x /\ (x < match nth_error bins (S i) with Some e => e | None => R end)) /\
  (x < nth 0 bins 0 -> i = O) /\
  (R <= x -> i = (length bins - 1)%nat).
Proof.
  intros Hs Hne HR i. unfold i, bin_of.
  destruct (digitize_spec x bins Hs) as [A B]. set (k := digitize x bins) in *.
  assert (Hk : (k <= length bins)%nat).
  { unfold k. clear. induction bins as [|b r IH]; simpl; [lia|]. destruct (b <=? x)%Z; simpl; lia. }
  destruct bins as [|b0 r]; [congruence|]. simpl length in *.
  split; [destruct k; simpl; lia|]. split; [|split].
  - intros Hlo Hhi. destruct k as [|k'].
    + exfalso. specialize (B O ltac:(lia)). simpl in *. lia.
    + simpl clamp. split; [apply A; lia|].
      destruct (nth_error (b0 :: r) (S k')) as [e|] eqn:En.
      * assert (Hl : (S k' < length (b0 :: r))%nat) by (apply nth_error_Some; congruence).
        specialize (B (S k') ltac:(simpl in *; lia)).
        rewrite (nth_error_nth _ _ 0 En) in B. exact B.
      * exact Hhi.
  - intros Hlo. destruct k as [|k']; [reflexivity|]. specialize (A O ltac:(lia)). simpl in *. lia.
  - intros Hhi. destruct (Nat.eq_dec k (S (length r))) as [->|Hn]; [simpl; lia|].
    exfalso. specialize (B (length r) ltac:(lia)).
    assert (In (nth (length r) (b0 :: r) 0) (b0 :: r)) by (apply nth_In; simpl; lia).
    specialize (HR _ H). lia.
Qed.
Print Assumptions bin_membership.
