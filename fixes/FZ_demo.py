"""F-Z (C11/C13, open). Exit 1 while the finding is present: a birth rounds an existing int64 value above 2**53."""
import sys, warnings; sys.path.insert(0, "/verif/harness")
import boot
warnings.filterwarnings("ignore")
import pandas as pd
from vivarium import Component, InteractiveContext
BIG = 2**53 + 1
class Counter(Component):
    @property
    def columns_created(self): return ["n"]
    def setup(self, builder): self.creator = builder.population.get_simulant_creator()
    def on_initialize_simulants(self, pop_data):
        self.population_view.update(pd.Series(BIG, index=pop_data.index, name="n", dtype="int64"))
boot.reset_contexts()
c = Counter()
sim = InteractiveContext(components=[c], configuration={"population": {"population_size": 1}}, logging_verbosity=0)
before = int(sim.get_population()["n"].iloc[0])
c.creator(1, None)
after = int(sim.get_population()["n"].iloc[0])
print(before, "->", after)
sys.exit(0 if before == after == BIG else 1)
