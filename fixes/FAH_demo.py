"""PENDING TRIAGE (C19) - a Series whose name is not `value` cannot be loaded through a draw-filtered Artifact.

Replay:  /venv/bin/python /verif/corpus/C19/pending/series_draw_filter.py      (exit 1 while the defect is there)

What happens: Artifact(path, filter_terms=["draw == 0"]) computes the column filter ["draw_0", "value"]
(artifact.py _parse_draw_filters) and hdf.load hands it to pd.read_hdf(columns=...).  A Series is stored as a one-column
table whose column is the Series' name (or `values` / 0 when it has none); the column filter selects nothing and pandas'
reconstruction of the Series raises IndexError ("single positional indexer is out-of-bounds") inside read_hdf.  A Series
named `value` loads fine; DataFrames lose their non-requested columns, as intended.

Verdict (builder b-c19c20): a VIOLATION of C19 for a supported data shape, limited to draw-filtered handles.  Series are
listed in the property ("tables with their index"; Artifact.write accepts them, hdf._write_pandas_data handles them
explicitly) and the key stays in artifact.keys, but `the keys an artifact reports are exactly the keys that can be loaded`
fails through that handle: load raises for a reported key.  No data is lost (an unfiltered handle loads the Series), so it
is an availability defect, not a corruption.  Smallest repair: in hdf.load, apply `columns=column_filters` only when the
stored object is a DataFrame (or intersect the filter with the stored columns and skip it when the intersection is empty).
The C19 generator names every Series `value` in cases whose handles carry a draw term, so the check is quiet about it.
"""
import os
import sys
import tempfile
import warnings

sys.path.insert(0, "/verif/harness")
import boot  # noqa: E402,F401
import pandas as pd  # noqa: E402
from vivarium.framework.artifact import Artifact  # noqa: E402

warnings.filterwarnings("ignore")
d = tempfile.mkdtemp(prefix="verif_c19_pending_")
path = os.path.join(d, "a.hdf")
idx = pd.MultiIndex.from_tuples([(0, "Female"), (1, "Male")], names=["age", "sex"])
bad = 0
try:
    a = Artifact(path)
    a.write("pop.named_value", pd.Series([1.0, 2.0], index=idx, name="value"))
    a.write("pop.unnamed", pd.Series([1.0, 2.0], index=idx))
    a.write("pop.named_x", pd.Series([1.0, 2.0], index=idx, name="x"))
    h = Artifact(path, filter_terms=["draw == 0"])
    for k in ("pop.named_value", "pop.unnamed", "pop.named_x"):
        try:
            h.load(k)
            print(f"{k}: reported by keys and loads through the draw-filtered handle")
        except Exception as e:  # noqa: BLE001
            bad += 1
            print(f"{k}: in keys = {k in h.keys}, but load raises {type(e).__name__}: {e}")
    print("unfiltered handle loads all three:", all(Artifact(path).load(k) is not None for k in ("pop.named_value", "pop.unnamed", "pop.named_x")))
finally:
    import shutil
    shutil.rmtree(d, ignore_errors=True)
sys.exit(1 if bad else 0)
