"""F-B (C01/C10): InteractiveContext stepping must visit the same event times as run() with per-simulant clocks.
Exit 1 if the defect is present."""
import sys; sys.path.insert(0, "/verif/harness")
import boot
import pandas as pd
from vivarium import Component
from vivarium.framework.engine import SimulationContext
from vivarium.interface.interactive import InteractiveContext

class Mod(Component):
    def __init__(self):
        super().__init__(); self.events = []
    def setup(self, builder):
        builder.time.register_step_size_modifier(
            lambda idx: pd.Series([pd.Timedelta(days=2 + (i % 2)) for i in idx], index=idx))
    def on_time_step(self, event):
        self.events.append((str(event.time.date()), list(event.index)))

cfg = {"population": {"population_size": 2},
       "time": {"start": {"year": 2005, "month": 7, "day": 1}, "end": {"year": 2005, "month": 7, "day": 13}, "step_size": 1}}
a = Mod(); s1 = SimulationContext(components=[a], configuration=cfg, logging_verbosity=0)
s1.setup(); s1.initialize_simulants(); s1.run()
b = Mod(); s2 = InteractiveContext(components=[b], configuration=cfg, logging_verbosity=0)
while s2.current_time < s2._clock.stop_time:
    s2.step()
print("run():           ", a.events)
print("interactive step:", b.events)
sys.exit(0 if a.events == b.events else 1)
