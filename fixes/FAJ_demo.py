"""Stand-alone replay (C04 candidate): does the datetime UNIT of a key column change a simulant's position?

    /venv/bin/python /verif/fixes/FAJ_demo.py         (exit 1 = the same key got different positions)

IndexMap._clip_to_seconds floor-divides column.astype(int64) by 10**9 "to get seconds" whatever unit the column holds.
pandas 3 stores Timestamp scalars / to_datetime results in MICROseconds, numpy datetime64[ns] arrays in NANOseconds.
Part 1: one IndexMap per unit, the same instants as key column.  Part 2: two whole simulations that differ ONLY in how
the component builds `entrance_time` (broadcast pd.Timestamp scalar vs. np.datetime64[ns] array); same seed, same
block size, same ages, same clock.
"""
import sys
sys.path.insert(0, "/verif/harness")
import boot  # noqa: E402  (puts /repo/src first)
import numpy as np
import pandas as pd
from vivarium import Component
from vivarium.framework.engine import SimulationContext
from vivarium.framework.randomness.index_map import IndexMap

differ = False
print("pandas", pd.__version__)
# ---- part 1: bare IndexMaps --------------------------------------------------------------------------------------
instants = ["2005-07-01 00:00:00", "2005-07-02 12:00:00", "2010-01-01 00:00:01"]
pos = {}
for unit in ("s", "ms", "us", "ns"):
    col = pd.to_datetime(instants).astype(f"datetime64[{unit}]")
    df = pd.DataFrame({"entrance_time": col, "age": [30.5, 3.25, 77.125]}, index=[0, 1, 2])
    m = IndexMap(["entrance_time", "age"], size=1_000_000)
    m.update(df, pd.Timestamp("2005-07-01"))
    pos[unit] = [int(x) for x in m[pd.Index([0, 1, 2])]]
    print(f"IndexMap, entrance_time as datetime64[{unit}]: raw int64 {df['entrance_time'].astype('int64').tolist()[0]:>20}  positions {pos[unit]}")
if len({tuple(v) for v in pos.values()}) > 1:
    differ = True
    print("  -> the SAME (entrance_time, age) keys sit at DIFFERENT positions depending on the storage unit")

# ---- part 2: two simulations ---------------------------------------------------------------------------------------
def population(build):
    class Pop(Component):
        @property
        def name(self):
            return "pop"
        @property
        def columns_created(self):
            return ["entrance_time", "age", "draw"]
        def setup(self, builder):
            self.register = builder.randomness.register_simulants
            self.stream = builder.randomness.get_stream("decision")
        def on_initialize_simulants(self, pop_data):
            df = pd.DataFrame({"age": [30.5, 3.25, 77.125, 12.0][: len(pop_data.index)]}, index=pop_data.index)
            df["entrance_time"] = build(pop_data)
            self.unit = str(df["entrance_time"].dtype)
            self.register(df[["entrance_time", "age"]])
            df["draw"] = self.stream.get_draw(pop_data.index)
            self.population_view.update(df)
    return Pop()

builders = {
    "broadcast pd.Timestamp scalar": lambda pd_: pd_.creation_time,
    "np.datetime64[ns] array": lambda pd_: np.array([np.datetime64(pd_.creation_time.isoformat(), "ns")] * len(pd_.index)),
}
draws = {}
for label, build in builders.items():
    SimulationContext._clear_context_cache()
    comp = population(build)
    sim = SimulationContext(components=[comp], logging_verbosity=0, configuration={
        "population": {"population_size": 4}, "randomness": {"key_columns": ["entrance_time", "age"], "random_seed": 7},
        "time": {"start": {"year": 2005, "month": 7, "day": 1}, "end": {"year": 2005, "month": 7, "day": 3}, "step_size": 1}})
    sim.setup()
    sim.initialize_simulants()
    pop = sim.get_population()
    draws[label] = pop["draw"].tolist()
    print(f"simulation, entrance_time from {label:32s} dtype {comp.unit:16s} draws {[round(d, 6) for d in draws[label]]}")
a, b = draws.values()
if a != b:
    differ = True
    print("  -> the same four simulants (same entrance time, same ages, same seed, same block) get DIFFERENT draws")
print("RESULT:", "unit-dependent identity (C04 candidate)" if differ else "no difference")
sys.exit(1 if differ else 0)
