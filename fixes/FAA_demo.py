"""F-AA (C20, open). Exit 1 while the finding is present: a configuration key can be deleted after setup has begun."""
import sys, warnings; sys.path.insert(0, "/verif/harness")
import boot
warnings.filterwarnings("ignore")
from vivarium import Component, InteractiveContext
out = {}
class P(Component):
    def setup(self, builder):
        try:
            del builder.configuration.population["population_size"]; out["del"] = "succeeded"
        except Exception as e:
            out["del"] = type(e).__name__
boot.reset_contexts()
try:
    InteractiveContext(components=[P()], configuration={"population": {"population_size": 2}}, logging_verbosity=0)
except Exception as e:
    out["later"] = type(e).__name__
print(out); sys.exit(1 if out.get("del") == "succeeded" else 0)
