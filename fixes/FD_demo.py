"""F-D (C11): a rejected multi-column update must change nothing. Exit 1 if the defect is present."""
import sys; sys.path.insert(0, "/verif/harness")
import boot
import pandas as pd
from vivarium import Component
from vivarium.framework.engine import SimulationContext

class Two(Component):
    @property
    def columns_created(self): return ["a", "b"]
    def on_initialize_simulants(self, pop_data):
        self.population_view.update(pd.DataFrame({"a": 1.0, "b": 1}, index=pop_data.index))
    def on_time_step(self, event):
        before = self.population_view.get(event.index).copy()
        bad = 0
        # try both column orders so the demo does not depend on set iteration order
        # whichever way the set of columns iterates, one of the two variants has the good column first
        for upd in (pd.DataFrame({"a": [9.5, 9.5], "b": [1.5, 1.5]}, index=[1, 2]),      # b: float into int64 -> rejected
                    pd.DataFrame({"a": [True, True], "b": [7, 7]}, index=[1, 2])):       # a: bool into float64 -> rejected
            try:
                self.population_view.update(upd)
                print("update unexpectedly accepted")
            except Exception as e:
                pass
            after = self.population_view.get(event.index)
            if not after.equals(before):
                bad += 1
                self.population_view.update(before)
        self.bad = bad

c = Two()
sim = SimulationContext(components=[c], configuration={"population": {"population_size": 4}}, logging_verbosity=0)
sim.setup(); sim.initialize_simulants(); sim.step()
print("partial writes:", c.bad)
sys.exit(1 if c.bad else 0)
