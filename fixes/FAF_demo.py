#!/venv/bin/python
"""Stand-alone replay (exit 1 while the behaviour is present) - candidate C15 finding "F-NAN", for triage.

(a) A simulant whose attribute for a lookup parameter is NaN (e.g. an age that was never initialised) is never
    rejected - not even with interpolation.extrapolate = False - and silently receives the value of the LAST bin of
    that parameter: np.digitize(NaN, bins) == len(bins), and Series.min()/max() skip NaN in the range test.
(b) A simulant whose attribute for a KEY column is missing (None / NaN) belongs to no groupby group and silently
    receives a row of NaN (binned and categorical tables alike), whereas a key value that is merely absent from the
    data raises KeyError.
The property (C15) promises a row whose key columns equal the simulant's attributes and whose bins contain its
parameter values, or a rejection.  Coq side: C15_nan_parameter / C15_missing_key state what the code does; the
membership theorems carry the precondition [no_nan].
"""
import os
import sys

sys.path.insert(0, os.path.join(os.path.dirname(os.path.abspath(__file__)), "..", "..", "..", "harness"))
import boot  # noqa: E402
import numpy as np  # noqa: E402
import pandas as pd  # noqa: E402
from vivarium import Component  # noqa: E402
from vivarium.framework.engine import SimulationContext  # noqa: E402

DATA = pd.DataFrame({"sex": ["f", "f", "m", "m"], "age_start": [0.0, 5.0, 0.0, 5.0], "age_end": [5.0, 10.0, 5.0, 10.0],
                     "value": [1.0, 2.0, 3.0, 4.0]})


class Probe(Component):
    @property
    def columns_created(self):
        return ["sex", "age"]

    def setup(self, builder):
        self.binned = builder.lookup.build_table(DATA, key_columns=["sex"], parameter_columns=["age"], value_columns=["value"])
        self.categorical = builder.lookup.build_table(pd.DataFrame({"sex": ["f", "m"], "value": [7.0, 8.0]}),
                                                      key_columns=["sex"], value_columns=["value"])

    def on_initialize_simulants(self, pop_data):
        self.population_view.update(pd.DataFrame({"sex": pd.Series(["f", None, "m"], index=pop_data.index, dtype="str"),
                                                  "age": [np.nan, 2.0, 2.0]}, index=pop_data.index))


boot.reset_contexts()
probe = Probe()
sim = SimulationContext(components=[probe], logging_verbosity=0,
                        configuration={"population": {"population_size": 3},
                                       "interpolation": {"validate": True, "extrapolate": False}})
boot.quiet_logging()
sim.setup()
sim.initialize_simulants()
bad = 0
for label, what, call in ((0, "age NaN, extrapolation off, binned table", probe.binned),
                          (1, "sex missing, binned table", probe.binned),
                          (1, "sex missing, categorical table", probe.categorical)):
    try:
        got = call(pd.Index([label])).iloc[0]
    except Exception as e:
        print(f"simulant {label} ({what}): rejected with {type(e).__name__}")
        continue
    bad += 1
    print(f"simulant {label} ({what}): NOT rejected, silently received {got}")
sys.exit(1 if bad else 0)
