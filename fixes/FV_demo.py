"""F-V (C08, open). Exit 1 while the finding is present: a zero-length run cannot be finalized."""
import sys, warnings; sys.path.insert(0, "/verif/harness")
import boot
warnings.filterwarnings("ignore")
from vivarium.framework.engine import SimulationContext
boot.reset_contexts()
sim = SimulationContext(configuration={"time": {"start": {"year": 2005, "month": 7, "day": 1}, "end": {"year": 2005, "month": 7, "day": 1},
                                                "step_size": 1}, "population": {"population_size": 1}}, logging_verbosity=0)
try:
    sim.run_simulation(); print("ok"); sys.exit(0)
except Exception as e:
    print("FINDING F-V present:", type(e).__name__, str(e)[:100]); sys.exit(1)
