"""F-X (C19). Exit 1 if the defect is present: an empty group left behind blocks a later JSON write of the two-part key."""
import sys; sys.path.insert(0,'/verif/harness'); import boot
import pandas as pd, os, warnings; warnings.filterwarnings("ignore")
from vivarium.framework.artifact import Artifact, hdf
bad=pd.DataFrame({"v":[object(),object()]},index=pd.Index([1,2],name="i"))
rc=0
for i,ops in enumerate(([("w","t.n.m",bad),("w","t.n",[2])], [("w","t.n.m",[1]),("r","t.n.m",None),("w","t.n",[2])])):
    p=f'/tmp/fx_demo_x{i}.hdf'
    if os.path.exists(p): os.remove(p)
    a=Artifact(p)
    for op,k,v in ops:
        try: a.write(k,v) if op=="w" else a.remove(k); res="ok"
        except Exception as e: res=type(e).__name__
        print(op,k,res)
    ok = a.keys==['metadata.keyspace','t.n'] and Artifact(p).load('t.n')==[2]
    print("final ok:",ok); rc|= (not ok)
    os.remove(p)
sys.exit(rc)
