"""F-C (C01): event indexes must not depend on whether the run is driven through SimulationContext or InteractiveContext.
Exit 1 if the defect is present."""
import sys; sys.path.insert(0, "/verif/harness")
import boot
import pandas as pd
from vivarium import Component
from vivarium.framework.engine import SimulationContext
from vivarium.interface.interactive import InteractiveContext

class Untrack(Component):
    def __init__(self):
        super().__init__(); self.sizes = []
    @property
    def columns_required(self): return ["tracked"]
    def on_time_step(self, event):
        self.sizes.append(len(event.index))
        pop = self.population_view.get(event.index, "tracked == True")
        if len(pop):
            self.population_view.update(pd.Series(False, index=pop.index[:1], name="tracked"))

cfg = {"population": {"population_size": 6},
       "time": {"start": {"year": 2005, "month": 7, "day": 1}, "end": {"year": 2005, "month": 7, "day": 5}, "step_size": 1}}
a = Untrack(); s1 = SimulationContext(components=[a], configuration=cfg, logging_verbosity=0)
s1.setup(); s1.initialize_simulants(); s1.run()
b = Untrack(); s2 = InteractiveContext(components=[b], configuration=cfg, logging_verbosity=0)
s2.take_steps(4, with_logging=False)
print("event index sizes, SimulationContext :", a.sizes)
print("event index sizes, InteractiveContext:", b.sizes)
sys.exit(0 if a.sizes == b.sizes else 1)
