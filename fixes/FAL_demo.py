"""PENDING TRIAGE (C19, provisional id F-AL) - Artifact.load hands out the cached object itself.

Replay:  /venv/bin/python /verif/fixes/FAL_demo.py      (exit 1 while the behaviour is there)

What happens: Artifact.load stores what hdf.load returned in self._cache and returns THAT object on this and every later
load of the key (artifact.py 106-116).  A caller that changes a loaded value in place (append to a list, set a dict key,
assign DataFrame cells / add a column) therefore changes what every later load of the key through the same Artifact
returns - until clear_cache() / a new Artifact; the file and a freshly opened artifact are unaffected.

Verdict (builder b-c19c20): a VIOLATION of `loading a key returns data equal to what was last written under it` through
that handle (the second load returns data nobody wrote), of the same family as the write-side aliasing seeded in round f;
silent - nothing raises, keys / file / re-opened artifact stay consistent.  vivarium's own ArtifactManager.load filters and
returns copies for tables in places, but Artifact itself does not.  Smallest repair: return a copy
(`copy.deepcopy(self._cache[key])`, or `.copy()` for pandas data) from load, or cache only immutable snapshots.
The C19 check mutates LOADED objects only once this finding is listed in known_findings.json for C19 under the id in
harness/props/c19.py ALIAS_ID (open -> KNOWN-FINDING, fixed -> regression guard) or with VERIF_C19_LOAD_ALIAS=1; objects
handed to write / replace are always mutated afterwards.
"""
import os
import sys
import tempfile
import warnings

sys.path.insert(0, "/verif/harness")
import boot  # noqa: E402,F401
import pandas as pd  # noqa: E402
from vivarium.framework.artifact import Artifact  # noqa: E402

warnings.filterwarnings("ignore")
d = tempfile.mkdtemp(prefix="verif_c19_pending_")
path = os.path.join(d, "a.hdf")
bad = 0
try:
    a = Artifact(path)
    a.write("cause.measles.sequelae", ["a", "b"])
    first = a.load("cause.measles.sequelae")
    first.append("MUT")                                   # the caller changes what it was given
    again = a.load("cause.measles.sequelae")
    fresh = Artifact(path).load("cause.measles.sequelae")
    print("written ['a', 'b']; second load through the same artifact:", again, "| freshly opened artifact:", fresh)
    bad += again != ["a", "b"]
    a.write("pop.structure", pd.DataFrame({"v": [1.0, 2.0]}, index=pd.Index([1, 2], name="i")))
    g = a.load("pop.structure")
    g.loc[1, "v"] = 77.0
    g["new"] = 0
    again = a.load("pop.structure")
    print("frame: second load through the same artifact has columns", list(again.columns), "and v[1] =", again.loc[1, "v"],
          "| freshly opened:", list(Artifact(path).load("pop.structure").columns))
    bad += list(again.columns) != ["v"] or again.loc[1, "v"] != 1.0
finally:
    import shutil
    shutil.rmtree(d, ignore_errors=True)
sys.exit(1 if bad else 0)
