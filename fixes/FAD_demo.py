"""F-AD (C14). Exit 1 if the defect is present: a post-processor whose truth value is False must still be applied."""
import sys, warnings; sys.path.insert(0, "/verif/harness")
import boot
warnings.filterwarnings("ignore")
import pandas as pd
from vivarium import Component, InteractiveContext
class Post:
    def __call__(self, value, manager): return value * 10
    def __len__(self): return 0
class A(Component):
    def setup(self, builder):
        self.p = builder.value.register_value_producer("v", source=lambda index: pd.Series(1.0, index=index), preferred_post_processor=Post())
boot.reset_contexts()
a = A()
sim = InteractiveContext(components=[a], configuration={"population": {"population_size": 2}}, logging_verbosity=0)
v = list(a.p(sim.get_population().index)); print(v)
sys.exit(0 if v == [10.0, 10.0] else 1)
