"""F-A (C10): population {0} alone must get its per-simulant step; move_simulants_to_end(Index([0])) must be honoured.
Exit 1 if the defect is present."""
import sys; sys.path.insert(0, "/verif/harness")
import boot
import warnings
import pandas as pd
from vivarium import Component
from vivarium.framework.engine import SimulationContext

class Mod(Component):
    def __init__(self, snooze_at=None):
        super().__init__(); self.events = []; self.snooze_at = snooze_at
    def setup(self, builder):
        builder.time.register_step_size_modifier(lambda idx: pd.Series(pd.Timedelta(days=3), index=idx))
        self.clock = builder.time.clock(); self.snooze = builder.time.move_simulants_to_end()
    def on_time_step(self, event):
        self.events.append((str(event.time.date()), list(event.index)))
        if self.snooze_at is not None and len(self.events) == self.snooze_at:
            self.snooze(event.index)

def run(comp, days=10):
    cfg = {"population": {"population_size": 1},
           "time": {"start": {"year": 2005, "month": 7, "day": 1}, "end": {"year": 2005, "month": 7, "day": 1 + days}, "step_size": 1}}
    sim = SimulationContext(components=[comp], configuration=cfg, logging_verbosity=0)
    sim.run_simulation()
    return comp.events

bad = 0
ev = run(Mod())
print("events of the single simulant 0 with a 3-day step:", ev)
gaps = {(pd.Timestamp(b[0]) - pd.Timestamp(a[0])).days for a, b in zip(ev, ev[1:])}
if gaps != {3}:
    print("DEFECT: per-simulant step ignored for population {0}; gaps =", gaps); bad = 1
ev = run(Mod(snooze_at=1))
print("after move_simulants_to_end at the first event:", ev)
if any(pd.Timestamp(t) <= pd.Timestamp("2005-07-11") for t, _ in ev[1:]):
    print("DEFECT: simulant 0 moved to the end still receives events"); bad = 1
sys.exit(bad)
