"""F-S / F-T (C19). Exit 1 if any defect is present."""
import sys, os, tempfile, shutil, warnings; sys.path.insert(0, "/verif/harness")
import boot
warnings.filterwarnings("ignore")
import pandas as pd
from vivarium.framework.artifact.artifact import Artifact
from vivarium.framework.artifact import hdf
d = tempfile.mkdtemp(prefix="fstdemo")
bad = 0
df = pd.DataFrame({"v": [1.0, 2.0]}, index=pd.Index([1, 2], name="i"))
unput = pd.DataFrame({"v": [object(), object()]}, index=pd.Index([1, 2], name="i"))   # passes check_writable, fails in put

def consistent(a, p, tag):
    global bad
    b = Artifact(p)
    if sorted(a.keys) != sorted(hdf.get_keys(p)) or a.keys != b.keys:
        print(f"DEFECT {tag}: artifact keys {a.keys} / file keys {sorted(hdf.get_keys(p))} / reopened {b.keys}"); bad = 1
    for k in a.keys:
        try: a.load(k); b.load(k)
        except Exception as e: print(f"DEFECT {tag}: reported key {k} cannot be loaded: {type(e).__name__}"); bad = 1
try:
    # F-S: a 2-part key and a 3-part key sharing an hdf group
    for i, ops in enumerate(([("w", "a.b.c", [1]), ("w", "a.b", df)],
                             [("w", "a.b", df), ("w", "a.b.c", [1]), ("r", "a.b", None)],
                             [("w", "a.b", df), ("w", "a.b.c", [1]), ("p", "a.b", df)])):
        p = os.path.join(d, f"s{i}.hdf"); a = Artifact(p)
        for op, k, v in ops:
            try: {"w": a.write, "p": a.replace}[op](k, v) if op != "r" else a.remove(k)
            except Exception: pass
            consistent(a, p, f"F-S after {op} {k}")
    # F-T: frames that only fail inside HDFStore.put
    p = os.path.join(d, "t.hdf"); a = Artifact(p); a.write("x.y", df); a.write("x.z", [1])
    before = list(a.keys)
    try: a.replace("x.y", unput); print("replace accepted?!")
    except Exception: pass
    if a.keys != before or not a.load("x.y").equals(df): print("DEFECT F-T: rejected replace changed the artifact:", a.keys); bad = 1
    consistent(a, p, "F-T replace")
    try: a.write("q.r", unput); print("write accepted?!")
    except Exception: pass
    consistent(a, p, "F-T write")
    try: a.write("q.r", [1]); assert Artifact(p).load("q.r") == [1]
    except Exception as e: print("DEFECT F-T: retry of a valid write fails:", type(e).__name__); bad = 1
finally:
    shutil.rmtree(d)
print("defects" if bad else "ok")
sys.exit(bad)
