"""PENDING TRIAGE (C19) - a filter term that compares a FLOAT column strictly with 0 makes every load through that handle
raise FloatingPointError.   Found by the thorough tier (VERIF_SEED=22) of the C19 check.

Replay:  /venv/bin/python /verif/corpus/C19/pending/float_filter_vs_zero.py      (exit 1 while the defect is there)

What happens: vivarium/__init__.py switches numpy to `seterr(all="raise")` for the whole process.  pandas evaluates a
`where` term `col > 0` / `col < 0` on a float64 column by nudging the constant with np.nextafter(0, +-inf), which yields a
denormal and sets the underflow flag -> FloatingPointError("underflow encountered in nextafter") out of
pd.read_hdf(..., where=...) in hdf.load.  `>=`, `<=`, `==`, `!=` and non-zero constants are fine; integer columns are fine.
Queryable float columns are exactly what real artifacts have: the index levels age_start / age_end / year_start ... of a
multi-index table, and the value column of a Series.

Verdict (builder b-c19c20): a VIOLATION of C19 through such a handle for supported data - the key is reported by
artifact.keys (and loads through any other handle) but load raises; `filter terms only ever restrict the rows returned`
presupposes that a well-formed term over an existing column is evaluated.  Nothing is lost on the file.  `age_start > 0`
is about the most natural filter term there is.  Smallest repair: evaluate the pandas reads in hdf.load under
`with np.errstate(under="ignore"):` (the underflow is pandas' own, not the data's).
The C19 generator uses non-zero constants for strict comparisons on float columns, so the check is quiet about it.
"""
import os
import sys
import tempfile
import warnings

sys.path.insert(0, "/verif/harness")
import boot  # noqa: E402,F401
import pandas as pd  # noqa: E402
from vivarium.framework.artifact import Artifact  # noqa: E402

warnings.filterwarnings("ignore")
d = tempfile.mkdtemp(prefix="verif_c19_pending_")
path = os.path.join(d, "a.hdf")
bad = 0
try:
    idx = pd.MultiIndex.from_tuples([(0.0, 5.0, 2000), (5.0, 10.0, 2000)], names=["age_start", "age_end", "year"])
    a = Artifact(path)
    a.write("cause.flu.incidence", pd.DataFrame({"value": [1.5, 2.5]}, index=idx))
    a.write("cause.flu.prevalence", pd.Series([1.5], index=pd.Index([2], name="draw_id"), name="value"))
    for key, term in (("cause.flu.incidence", "age_start > 0"), ("cause.flu.incidence", "age_start < 0"),
                      ("cause.flu.incidence", "age_start >= 0"), ("cause.flu.incidence", "age_start > 1"),
                      ("cause.flu.prevalence", "value > 0")):
        h = Artifact(path, filter_terms=[term])
        try:
            out = h.load(key)
            print(f"{term!r:18} on {key}: {len(out)} row(s)")
        except Exception as e:  # noqa: BLE001
            bad += 1
            print(f"{term!r:18} on {key}: in keys = {key in h.keys}, load raises {type(e).__name__}: {e}")
finally:
    import shutil
    shutil.rmtree(d, ignore_errors=True)
sys.exit(1 if bad else 0)
