"""F-AB (C01, new): InteractiveContext.run()/run_until()/run_for() compute their number of iterations ONCE, from the
global step size at entry (ceil((end - time) / step_size)).  With per-simulant clocks the global step varies, so the
"same" run takes a different number of steps than SimulationContext.run() (while time < stop: step()) - silently when
the closing assertion `time - step_size < end <= time` happens to hold for the NEW step size, with an AssertionError
otherwise.  Exit 1 if the defect is present.      usage: /venv/bin/python FAB_demo.py"""
import sys; sys.path.insert(0, "/verif/harness")
import boot
import pandas as pd
from vivarium import Component
from vivarium.framework.engine import SimulationContext
from vivarium.interface.interactive import InteractiveContext


class Mod(Component):
    """one simulant; asks for 1, 2, 3, 1, 2, 3 ... days depending on the day the modifier is evaluated"""
    def __init__(self):
        super().__init__(); self.times = []
    def setup(self, builder):
        self.clock = builder.time.clock()
        builder.time.register_step_size_modifier(self.modifier)
    def modifier(self, index):
        tick = (self.clock() - pd.Timestamp(2005, 7, 1)).days
        return pd.Series(pd.Timedelta(days=1 + tick % 3), index=index)
    def on_time_step(self, event):
        self.times.append(str(event.time.date()))


cfg = {"population": {"population_size": 1},
       "time": {"start": {"year": 2005, "month": 7, "day": 1}, "end": {"year": 2005, "month": 7, "day": 4}, "step_size": 1}}
a = Mod(); s1 = SimulationContext(components=[a], configuration=cfg, logging_verbosity=0)
s1.setup(); s1.initialize_simulants(); s1.run()
b = Mod(); s2 = InteractiveContext(components=[b], configuration=cfg, logging_verbosity=0)
try:
    s2.run(with_logging=False)
    how = "silently"
except AssertionError:
    how = "AssertionError"
print("SimulationContext.run():  event times", a.times, "final clock", s1.current_time.date())
print("InteractiveContext.run(): event times", b.times, "final clock", s2.current_time.date(), f"({how})")
sys.exit(0 if a.times == b.times else 1)
