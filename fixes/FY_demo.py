"""F-Y (C14). Exit 1 if the defect is present: a source callable whose truth value is False must still count as the source."""
import sys, warnings; sys.path.insert(0, "/verif/harness")
import boot
warnings.filterwarnings("ignore")
import pandas as pd
from vivarium import Component, InteractiveContext
class F:
    name = "f"
    def __call__(self, index): return pd.Series(1.0, index=index)
    def __len__(self): return 0            # falsy callable object
first, seen = F(), {}
class A(Component):
    def setup(self, builder):
        self.p = builder.value.register_value_producer("v", source=first)
class B(Component):
    def setup(self, builder):
        try:
            builder.value.register_value_producer("v", source=lambda index: pd.Series(2.0, index=index))
            seen["second"] = "accepted"
        except Exception as e:
            seen["second"] = type(e).__name__
boot.reset_contexts()
a = A()
bad = 0
try:
    sim = InteractiveContext(components=[a, B()], configuration={"population": {"population_size": 3}}, logging_verbosity=0)
    if a.p.source is not first: print("DEFECT F-Y: rejected second producer replaced the source"); bad = 1
    try:
        v = a.p(sim.get_population().index)
        if list(v) != [1.0, 1.0, 1.0]: print("DEFECT F-Y: wrong value", list(v)); bad = 1
    except Exception as e:
        print("DEFECT F-Y: calling the sourced pipeline raised", type(e).__name__); bad = 1
except Exception as e:
    # the second producer must be refused; what matters is that the first source survived
    if a.p.source is not first: print("DEFECT F-Y: rejected second producer replaced the source (", type(e).__name__, ")"); bad = 1
print(seen, "defects" if bad else "ok"); sys.exit(bad)
