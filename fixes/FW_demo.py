"""F-W (C12), found by builder b-c12. Exit 1 if the defect is present.

_get_view (population/manager.py:252-260) decides whether to add the default `tracked == True` filter with the
substring test `"tracked" not in query` and appends it as TEXT.  A view WITHOUT the tracked column whose query does
not refer to the tracked column at all therefore returns untracked simulants when
  (a) a column NAME in the query contains "tracked"   (tracked_by >= 0),
  (b) a string CONSTANT contains "tracked"            (note != 'tracked'),
  (c) the query ends in a comment                     (age >= 0 # x   ->   age >= 0 # x and tracked == True).
Expected by the property: [0, 2] for all four views (simulant 1 is untracked).  Observed: [0, 1, 2] for (a), (b), (c).
The C12 generator keeps these classes out (ASSUMPTIONS in harness/props/c12.py); the model's mentions_tracked is syntactic.
"""
import sys; sys.path.insert(0, '/verif/harness')
import boot, pandas as pd
from vivarium import Component
from vivarium.interface.interactive import InteractiveContext
class P(Component):
    def setup(self, b):
        self.b = b
        self.v = b.population.get_view(["age", "tracked_by", "note"])
        b.population.initializes_simulants(self.init, creates_columns=["age", "tracked_by", "note"])
        self.views = {
          "plain":   b.population.get_view(["age"], "age >= 0"),
          "colname": b.population.get_view(["age"], "tracked_by >= 0"),        # column whose NAME contains 'tracked'
          "const":   b.population.get_view(["age"], "note != 'tracked'"),      # string CONSTANT containing 'tracked'
          "comment": b.population.get_view(["age"], "age >= 0 # x"),           # trailing comment swallows the appended filter
        }
        self.t = b.population.get_view(["tracked"])
    def init(self, d):
        self.v.update(pd.DataFrame({"age": [1, 2, 3], "tracked_by": [0, 0, 0], "note": ["a", "b", "c"]}, index=d.index))
boot.reset_contexts()
p = P()
sim = InteractiveContext(components=[p], configuration={"population": {"population_size": 3}}, logging_verbosity=0)
p.t.update(pd.Series([False], index=pd.Index([1]), name="tracked"))
bad = 0
for k, v in p.views.items():
    got = list(v.get(pd.Index([0, 1, 2])).index); print(k, repr(v.query), "->", got); bad |= got != [0, 2]
print("defects" if bad else "ok"); sys.exit(1 if bad else 0)
