"""F-P (C12): a view without the tracked column must return only tracked simulants, also for queries with a top-level `or`.
Exit 1 if the defect is present."""
import sys; sys.path.insert(0, "/verif/harness")
import boot
import pandas as pd
from vivarium import Component
from vivarium.framework.engine import SimulationContext

class P(Component):
    @property
    def columns_created(self): return ["a"]
    def setup(self, builder):
        self.v_or = builder.population.get_view(["a"], "a > 1 or a < 0")
        self.v_tr = builder.population.get_view(["tracked"])
    def on_initialize_simulants(self, pop_data):
        self.population_view.update(pd.Series([5.0, 6.0, 0.5], index=pop_data.index, name="a"))
    def on_time_step(self, event):
        self.v_tr.update(pd.Series(False, index=pd.Index([0]), name="tracked"))
        self.got = list(self.v_or.get(pd.Index([0, 1, 2])).index)
        self.sub = list(self.v_or.subview(["a"]).get(pd.Index([0, 1, 2])).index)

c = P()
sim = SimulationContext(components=[c], configuration={"population": {"population_size": 3}}, logging_verbosity=0)
sim.setup(); sim.initialize_simulants(); sim.step()
print("view(['a'], 'a > 1 or a < 0') returned", c.got, "subview:", c.sub, "(simulant 0 is untracked)")
sys.exit(0 if c.got == [1] and c.sub == [1] else 1)
