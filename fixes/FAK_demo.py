"""F-AK (C14/C09). Exit 1 if the defect is present: a value modifier given as functools.partial (or a callable object
with neither `name` nor `__name__`) must be registrable."""
import sys, warnings, functools; sys.path.insert(0, "/verif/harness")
import boot
warnings.filterwarnings("ignore")
import pandas as pd
from vivarium import Component, InteractiveContext
def add(k, index, value): return value + k
class A(Component):
    def setup(self, builder):
        self.p = builder.value.register_value_producer("v", source=lambda index: pd.Series(1.0, index=index))
        builder.value.register_value_modifier("v", functools.partial(add, 10.0))
boot.reset_contexts(); a = A()
try:
    sim = InteractiveContext(components=[a], configuration={"population": {"population_size": 2}}, logging_verbosity=0)
    v = list(a.p(sim.get_population().index)); print(v); sys.exit(0 if v == [11.0, 11.0] else 1)
except AttributeError as e:
    print("DEFECT F-AK:", e); sys.exit(1)
