#!/venv/bin/python
"""Pending (robustness, driver difference - C01 candidate): InteractiveContext.run()/run_until/run_for with SimpleClock,
integer start/end and a fractional step size raises ValueError("Provided time must be compatible with <class 'float'>"):
the clock value becomes a float as soon as the fractional step is subtracted/added (initialize_simulants), and
run_until's type check then refuses the integer stop time.  The SAME configuration runs to the end under
SimulationContext (setup, initialize_simulants, run): 8 steps, clock 4.0.

Exit 1 while the defect is present (the interactive driver raises where the engine driver runs), 0 once both drivers agree.
"""
import sys

sys.path.insert(0, "/verif/harness")
import boot  # noqa: E402  (puts /repo/src, or VERIF_REPO_SRC, first on sys.path)
from vivarium.framework.engine import SimulationContext  # noqa: E402
from vivarium.interface.interactive import InteractiveContext  # noqa: E402

PLUGINS = {"required": {"clock": {"controller": "vivarium.framework.time.SimpleClock",
                                  "builder_interface": "vivarium.framework.time.TimeInterface"}}}
CONFIG = {"time": {"start": 0, "end": 4, "step_size": 0.5}, "population": {"population_size": 1}}

boot.reset_contexts()
eng = SimulationContext(configuration=CONFIG, plugin_configuration=PLUGINS, logging_verbosity=0)
eng.setup()
eng.initialize_simulants()
eng.run()
print(f"SimulationContext.run: clock {eng.current_time!r}")

boot.reset_contexts()
sim = InteractiveContext(configuration=CONFIG, plugin_configuration=PLUGINS, logging_verbosity=0)
try:
    n = sim.run(with_logging=False)
    print(f"InteractiveContext.run: {n} steps, clock {sim.current_time!r}")
except Exception as e:
    print(f"InteractiveContext.run raised {type(e).__name__}: {e}")
    sys.exit(1)
sys.exit(0 if sim.current_time == eng.current_time else 1)
