"""F-U (C04). Exit 1 if the defect is present: with one CRN key column, a key that collides with nobody must get the
position of its own hash whatever other keys are registered with it."""
import sys, warnings; sys.path.insert(0, "/verif/harness")
import boot
warnings.filterwarnings("ignore")
import pandas as pd
from vivarium.framework.randomness.index_map import IndexMap
t = pd.Timestamp("2020-01-01")
def positions(keys):
    m = IndexMap(["b"], size=10); m.update(pd.DataFrame({"b": keys}, index=range(len(keys))), t)
    return {int(k[1]): int(v) for k, v in m._map.items()}
alone = positions([3])[3]
bad = 0
for keys in ([5, 15, 25, 3], [5, 25, 3], [3, 5, 25]):      # 5 and 25 collide (hash 2); 3 (hash 6) collides with nobody
    got = positions(keys)
    if got[3] != alone:
        print(f"DEFECT F-U: key 3 alone -> {alone}, registered with {keys} -> {got[3]} (map {got})"); bad = 1
print("defects" if bad else "ok"); sys.exit(bad)
