import pandas as pd
from vivarium import Component
from vivarium.framework.randomness import RESIDUAL_CHOICE

class Chooser(Component):
    @property
    def columns_created(self): return ["pick"]
    def setup(self, builder):
        self.stream = builder.randomness.get_stream("pick")
        self.p = [0.25, RESIDUAL_CHOICE]          # sentinel kept in component state
    def on_initialize_simulants(self, pop_data):
        self.population_view.update(pd.Series("a", index=pop_data.index, name="pick"))
    def on_time_step(self, event):
        self.population_view.update(self.stream.choice(event.index, ["a", "b"], self.p).rename("pick"))
