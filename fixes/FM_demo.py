"""F-M (C18): a component that keeps RESIDUAL_CHOICE in its state must keep working after write_backup + restore.
Exit 1 if the defect is present."""
import sys, os, tempfile, subprocess; sys.path.insert(0, "/verif/harness")
import boot
import pandas as pd, dill
sys.path.insert(0, "/verif/fixes")
from fm_component import Chooser
from vivarium.framework.engine import SimulationContext

cfg = {"population": {"population_size": 20},
       "time": {"start": {"year": 2005, "month": 7, "day": 1}, "end": {"year": 2005, "month": 7, "day": 6}, "step_size": 1}}
c = Chooser(); sim = SimulationContext(components=[c], configuration=cfg, logging_verbosity=0)
sim.setup(); sim.initialize_simulants(); sim.step(); sim.step()
d = tempfile.mkdtemp(); path = os.path.join(d, "b.pkl")
sim.write_backup(path)
while sim.current_time < sim._clock.stop_time: sim.step()
full = list(sim.get_population()["pick"])
try:
    with open(path, "rb") as f: sim2 = dill.load(f)
    while sim2.current_time < sim2._clock.stop_time: sim2.step()
    resumed = list(sim2.get_population()["pick"])
    ok = resumed == full
    print("uninterrupted == resumed:", ok)
except Exception as e:
    print("DEFECT: resumed run failed:", type(e).__name__, str(e)[:100]); ok = False
import shutil; shutil.rmtree(d)
sys.exit(0 if ok else 1)
