"""F-E (C17): triggered transitions must work and give each simulant ITS OWN probability (request order).
Exit 1 if the defect is present."""
import sys; sys.path.insert(0, "/verif/harness")
import boot
import pandas as pd
from vivarium.framework.state_machine import State, Transition, Trigger

a, b = State("a"), State("b")
t = Transition(a, b, probability_func=lambda idx: pd.Series(1.0, index=idx), triggered=Trigger.START_INACTIVE)
t.set_active(pd.Index([3, 1]))
idx = pd.Index([4, 3, 2, 1, 0])
try:
    p = t.probability(idx)
except Exception as e:
    print("DEFECT: crash:", type(e).__name__, e); sys.exit(1)
print(dict(zip(idx, list(p))), "index:", list(p.index))
ok = list(p.index) == list(idx) and list(p) == [0.0, 1.0, 0.0, 1.0, 0.0]
print("aligned with the request:", ok)
sys.exit(0 if ok else 1)
