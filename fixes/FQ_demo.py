"""F-Q (C09): a pipeline used as the source of another pipeline before its own producer is registered must still create
the dependency, whatever order the components are supplied in. Exit 1 if the defect is present."""
import sys; sys.path.insert(0, "/verif/harness")
import boot
import pandas as pd
from vivarium import Component
from vivarium.framework.engine import SimulationContext

LOG = []
class A(Component):
    def setup(self, builder):
        q = builder.value.get_value("Q")
        builder.value.register_value_producer("P", source=q)
class B(Component):
    @property
    def columns_created(self): return ["cb"]
    @property
    def initialization_requirements(self): return {"requires_columns": ["d2"], "requires_values": [], "requires_streams": []}
    def setup(self, builder):
        self.view = builder.population.get_view(["cb"])
        builder.value.register_value_producer("Q", source=lambda idx: self.view.get(idx)["cb"], requires_columns=["cb"])
    def on_initialize_simulants(self, pop_data):
        LOG.append("B"); self.population_view.update(pd.Series(1.0, index=pop_data.index, name="cb"))
class C(Component):
    @property
    def columns_created(self): return ["cc"]
    @property
    def initialization_requirements(self): return {"requires_columns": [], "requires_values": ["P"], "requires_streams": []}
    def setup(self, builder): self.p = builder.value.get_value("P")
    def on_initialize_simulants(self, pop_data):
        LOG.append("C"); self.population_view.update(pd.Series(0.0, index=pop_data.index, name="cc"))
class D1(Component):
    @property
    def columns_created(self): return ["d1"]
    def on_initialize_simulants(self, pop_data):
        LOG.append("D1"); self.population_view.update(pd.Series(0.0, index=pop_data.index, name="d1"))
class D2(Component):
    @property
    def columns_created(self): return ["d2"]
    @property
    def initialization_requirements(self): return {"requires_columns": ["d1"], "requires_values": [], "requires_streams": []}
    def on_initialize_simulants(self, pop_data):
        LOG.append("D2"); self.population_view.update(pd.Series(0.0, index=pop_data.index, name="d2"))

bad = 0
for order in ([A, B, C, D1, D2], [B, A, C, D1, D2]):
    del LOG[:]
    sim = SimulationContext(components=[k() for k in order], configuration={"population": {"population_size": 2}}, logging_verbosity=0)
    sim.setup(); sim.initialize_simulants()
    print([k.__name__ for k in order], "->", LOG)
    if LOG.index("C") < LOG.index("B"):
        print("DEFECT: C (requires value P -> source Q -> column cb) ran before B (creates cb)"); bad = 1
sys.exit(bad)
