"""F-R (C16): a binned stratification must work when an event's population has exactly one simulant. Exit 1 if defect present."""
import sys; sys.path.insert(0, "/verif/harness")
import boot
import pandas as pd
from vivarium import Component
from vivarium.framework.engine import SimulationContext

class Obs(Component):
    @property
    def columns_created(self): return ["age"]
    def setup(self, builder):
        builder.results.register_binned_stratification("age", "age_bin", [0, 60, 120], ["young", "old"])
        builder.results.register_adding_observation("n", additional_stratifications=["age_bin"], requires_columns=["age"])
    def on_initialize_simulants(self, pop_data):
        self.population_view.update(pd.Series(30, index=pop_data.index, name="age"))

sim = SimulationContext(components=[Obs()], configuration={"population": {"population_size": 1}}, logging_verbosity=0)
sim.setup(); sim.initialize_simulants()
try:
    sim.step()
except Exception as e:
    print("DEFECT: step with a single simulant failed:", type(e).__name__, e); sys.exit(1)
r = sim.get_results()["n"]
print(r.to_dict("records"))
sys.exit(0 if int(r.loc[r["age_bin"] == "young", "value"].iloc[0]) == 1 else 1)
