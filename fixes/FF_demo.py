"""F-F1/F-F2/F-F3 (C19). Exit 1 if any defect is present."""
import sys, os, tempfile, shutil, warnings; sys.path.insert(0, "/verif/harness")
import boot
warnings.filterwarnings("ignore")
from vivarium.framework.artifact.artifact import Artifact
from vivarium.framework.artifact import hdf
d = tempfile.mkdtemp(prefix="ffdemo")
bad = 0
try:
    # F-F1: replace with None / unserialisable must leave key and data
    for i, val in enumerate((None, {"o": object()})):
        p = os.path.join(d, f"a{i}.hdf"); a = Artifact(p)
        a.write("x.y", [1, 2, 3])
        try: a.replace("x.y", val); print("replace accepted?!")
        except Exception as e: pass
        ok = "x.y" in a.keys and "x.y" in Artifact(p).keys and Artifact(p).load("x.y") == [1, 2, 3]
        if not ok: print("DEFECT F-F1: replace(x.y, %r) rejected but key/data lost; keys=%s" % (val, a.keys)); bad = 1
    # F-F2: write unserialisable must leave no orphan node, retry must work
    p = os.path.join(d, "b.hdf"); a = Artifact(p)
    try: a.write("k.m", {"o": object()})
    except Exception as e: pass
    if sorted(hdf.get_keys(p)) != sorted(a.keys): print("DEFECT F-F2: file keys", hdf.get_keys(p), "!= artifact keys", a.keys); bad = 1
    try: a.write("k.m", {"fine": 1}); assert Artifact(p).load("k.m") == {"fine": 1}
    except Exception as e: print("DEFECT F-F2: retry of a valid write fails:", type(e).__name__, str(e)[:80]); bad = 1
    # F-F3: removing the reserved keyspace key must not corrupt the file
    p = os.path.join(d, "c.hdf"); a = Artifact(p); a.write("x.y", [1])
    try: a.remove("metadata.keyspace")
    except Exception as e: pass
    try:
        b = Artifact(p)
        if sorted(b.keys) != sorted(a.keys): print("DEFECT F-F3: reopened keys", b.keys, "!=", a.keys); bad = 1
    except Exception as e:
        print("DEFECT F-F3: artifact cannot be reopened:", type(e).__name__); bad = 1
finally:
    shutil.rmtree(d)
print("defects" if bad else "ok")
sys.exit(bad)
