"""F-AI (C12). Exit 1 if the defect is present: a # inside a backticked column name must not be cut as a comment."""
import sys; sys.path.insert(0,'/verif/harness'); import boot
import pandas as pd
from vivarium import Component
from vivarium.interface.interactive import InteractiveContext
class P(Component):
    def setup(self, b):
        cols=["age","my#col"]
        self.v=b.population.get_view(cols)
        b.population.initializes_simulants(self.init, creates_columns=cols)
        self.q=b.population.get_view(["age"], "`my#col` >= 0 # c")
        self.t=b.population.get_view(["tracked"])
    def init(self,d): self.v.update(pd.DataFrame({"age":[1,2,3],"my#col":[0,0,0]},index=d.index))
boot.reset_contexts(); p=P()
sim=InteractiveContext(components=[p],configuration={"population":{"population_size":3}},logging_verbosity=0)
p.t.update(pd.Series([False],index=pd.Index([1]),name="tracked"))
got=list(p.q.get(pd.Index([0,1,2])).index); print(repr(p.q.query), got); sys.exit(0 if got==[0,2] else 1)
