#!/venv/bin/python
"""F-AC (C15), found by builder b-c14c15. Exit 1 while the defect is present.

Data accepted by the code's own validation (interpolation.validate = True: check_data_complete finds every combination
of left edges, no overlap, no gap) in which the LAST bin's right edge differs between sub-tables:

      age_start age_end | year_start year_end | value
          0        5    |   2000      2001    |   1
          5       10    |   2000      2001    |   2        <- oldest age group ends at 10 for year 2000 ...
          0        5    |   2001      2002    |   3
          5       12    |   2001      2002    |   4        <- ... and at 12 for year 2001

Order0Interp keeps ONE maximum right edge per parameter (max over the whole key group = 12).  With extrapolation
switched off a simulant with age 11 in year-bin 2000 is therefore NOT rejected (11 < 12) although no row of the data
contains it, and silently receives the value of the bin [5, 10) x [2000, 2001).  The property (C15) promises either a row
whose half-open bins contain the values or a rejection.

Reachable through the public API with default validation: builder.lookup.build_table(frame, parameter_columns=[...])
on such a frame passes validate_build_table_parameters and check_data_complete.  With the default
interpolation.extrapolate = True nothing observable goes wrong (the nearest edge bin of the simulant's own sub-table is
what extrapolation promises), so only models that switch extrapolation off in order to be told about uncovered values
are affected.  Coq side: Example ex_ends_disagree in coq/props/C15.v; theorem precondition [ends_agree].
"""
import os
import sys

sys.path.insert(0, "/verif/harness")
import boot  # noqa: E402  (puts the repository source first on sys.path)
import pandas as pd  # noqa: E402
from vivarium import Component  # noqa: E402
from vivarium.framework.engine import SimulationContext  # noqa: E402

DATA = pd.DataFrame({"age_start": [0.0, 5.0, 0.0, 5.0], "age_end": [5.0, 10.0, 5.0, 12.0],
                     "era_start": [2000.0, 2000.0, 2001.0, 2001.0], "era_end": [2001.0, 2001.0, 2002.0, 2002.0],
                     "value": [1.0, 2.0, 3.0, 4.0]})


class Probe(Component):
    @property
    def columns_created(self):
        return ["age", "era"]

    def setup(self, builder):
        self.table = builder.lookup.build_table(DATA, parameter_columns=["age", "era"], value_columns=["value"])

    def on_initialize_simulants(self, pop_data):
        self.population_view.update(pd.DataFrame({"age": [11.0, 11.0], "era": [2000.5, 2001.5]}, index=pop_data.index))


boot.reset_contexts()
probe = Probe()
sim = SimulationContext(components=[probe], logging_verbosity=0,
                        configuration={"population": {"population_size": 2},
                                       "interpolation": {"validate": True, "extrapolate": False}})
boot.quiet_logging()
try:
    sim.setup()                  # before the fix the data passed the validation
except ValueError as e:          # after the fix: the malformed data is refused when the table is built
    print("data rejected by the validation:", str(e)[:100]); sys.exit(0)
sim.initialize_simulants()
print("simulant 1 (age 11, era 2001.5: inside [5,12) x [2001,2002)):", float(probe.table(pd.Index([1])).iloc[0]))
try:
    got = float(probe.table(pd.Index([0])).iloc[0])
except Exception as e:           # the behaviour the property asks for: no row contains (11, 2000.5) -> rejected
    print("simulant 0 (age 11, era 2000.5: no data row contains it) rejected:", type(e).__name__)
    sys.exit(0)
rows = DATA[(DATA.age_start <= 11) & (11 < DATA.age_end) & (DATA.era_start <= 2000.5) & (2000.5 < DATA.era_end)]
print(f"simulant 0 (age 11, era 2000.5) was NOT rejected with extrapolation off and received {got}; "
      f"data rows whose bins contain it: {len(rows)}")
sys.exit(1)
