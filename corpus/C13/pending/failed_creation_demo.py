"""For triage (C13 area, found while adding error-swallowing probes for C01): a simulant creation that FAILS half-way
(here: an initializer supplies data conflicting with another component's, PopulationError) leaves
PopulationManager.adding_simulants == True (no try/finally in _create_simulants).  If user code catches the error and
carries on, EVERY later ordinary update by ANY component is checked as if simulants were being added: unchanged-value
updates pass, the first real change raises "Two components are providing conflicting initialization data" - and the
half-created rows stay in the table.  Exit 1 if present.      usage: /venv/bin/python failed_creation_demo.py"""
import sys; sys.path.insert(0, "/verif/harness")
import boot
import pandas as pd
from vivarium import Component
from vivarium.interface.interactive import InteractiveContext


class A(Component):
    columns_created = ["x"]
    def on_initialize_simulants(self, pop_data):
        self.population_view.update(pd.Series(1.0, index=pop_data.index, name="x"))
    def on_time_step(self, event):
        pop = self.population_view.get(event.index)
        pop["x"] += 1.0
        self.population_view.update(pop)


class B(Component):
    columns_required = ["x"]
    initialization_requirements = {"requires_columns": ["x"], "requires_values": [], "requires_streams": []}
    def setup(self, builder):
        self.creator = builder.population.get_simulant_creator()
        self.caught = None
    def on_initialize_simulants(self, pop_data):
        if pop_data.user_data.get("bad"):
            self.population_view.update(pd.Series(2.0, index=pop_data.index, name="x"))    # conflicts with A's 1.0
    def on_time_step_prepare(self, event):
        if self.caught is None:
            try:
                self.creator(1, {"bad": True})
                self.caught = "accepted"
            except Exception as e:
                self.caught = type(e).__name__


sim = InteractiveContext(components=[A(), B()], configuration={"population": {"population_size": 2}}, logging_verbosity=0)
try:
    sim.step()
    outcome = "the step after the caught error completed"
    rc = 0
except Exception as e:
    outcome = f"the NEXT ordinary update raised {type(e).__name__}: {str(e)[:90]}"
    rc = 1
print("creation:", sim.get_component("b").caught, "|", outcome, "| rows:", len(sim.get_population(untracked=True)))
sys.exit(rc)
