#!/venv/bin/python
"""PENDING TRIAGE (C13) - a creation requested from INSIDE an initializer (nested creation).

Run:  /venv/bin/python /verif/corpus/C13/pending/nested_creation_demo.py      (exit 1 while the behaviour is present)

What happens in /repo/src (PopulationManager._create_simulants is re-entered; it is not guarded and the flags are
plain attributes, not a stack):
  outer call  creator(1): reindex -> row 2 (null), adding_simulants = True, initializers start
  inner call  creator(2) from the component's initializer: reindex -> rows 3,4, ALL initializers run for [3,4],
              then `creating_initial_population = adding_simulants = False`  <- clears the OUTER call's flags too
  back in the outer initializer: its well-behaved fill of row 2 (int64 values into the column that reindex promoted
              to float64) is now judged by the steady-state rule and REJECTED (PopulationError); the inner fill was
              rejected as well (row 2 is still NaN, the whole-column cast back to int64 fails).

Verdict of the C11/C13 builder, clause by clause (C13 statement):
  * "appends rows with fresh, consecutive index labels ... and returns exactly those labels":   HOLDS
        outer returns [2], inner returns [3, 4]; no label is reused or skipped.
  * "Initializers receive the new labels together with the creation time and creation window":  HOLDS
        each call's initializers are called once with that call's labels.
  * "the state of existing simulants is not changed by the creation itself":                     HOLDS for values of
        simulants that existed before the OUTER call (dtype promoted int64->float64 / bool->object, values kept),
        EXCEPT through the known classes F-L / F-Z: with a bool column the inner initializer's fill casts the whole
        object column back to bool and the outer newborn's still-null cell becomes True (the F-L class: update while
        adding_simulants whose dtype differs from the column's current dtype, whole column cast).
  * not covered by any clause, but a defect worth a decision: after the nested call the newborns of the outer call
        stay UNINITIALISED (their initializers' updates are rejected) and the column keeps the promoted dtype for
        good; nothing is reported unless the initializer lets the PopulationError escape.  Same root as "flags are
        not cleared in a finally / not restored": the two booleans are shared by all activations.
  => no NEW clause of C11/C13 is violated; robustness defect (candidate: refuse re-entrant creation, or save/restore
     the flags around the initializer loop).  Not in the Coq model (a creation inside a strategy tree would need
     fuel); observed by stream `edge` of ./check C13 (python oracle: labels, rows, existing values).
"""
import sys

sys.path.insert(0, "/verif/harness")
import boot  # noqa: E402  (puts /repo/src - or VERIF_REPO_SRC - first on sys.path)
import pandas as pd  # noqa: E402
from vivarium import Component  # noqa: E402
from vivarium.interface.interactive import InteractiveContext  # noqa: E402


def run(dtype, value):
    log = []

    class Nester(Component):
        armed, depth = False, 0

        @property
        def columns_created(self):
            return ["n"]

        def setup(self, builder):
            self.creator = builder.population.get_simulant_creator()

        def on_initialize_simulants(self, pop_data):
            if self.armed and self.depth == 0:
                self.depth += 1
                log.append(("inner returned", [int(x) for x in self.creator(2, None)]))
                self.depth -= 1
                log.append(("outer newborn's cell after the inner call", holder[0].get_population(untracked=True)["n"].tolist()[2]))
            try:
                self.population_view.update(pd.Series(value, index=pop_data.index, name="n", dtype=dtype))
                log.append(("fill accepted", [int(x) for x in pop_data.index]))
            except Exception as e:
                log.append(("fill REJECTED", [int(x) for x in pop_data.index], type(e).__name__))

    boot.reset_contexts()
    c = Nester()
    holder = []
    sim = InteractiveContext(components=[c], configuration={"population": {"population_size": 2}}, logging_verbosity=0)
    boot.quiet_logging()
    holder.append(sim)
    c.armed = True
    del log[:]
    outer = [int(x) for x in c.creator(1, None)]
    pop = sim.get_population(untracked=True)
    return outer, log, pop["n"]


bad = []
outer, log, col = run("int64", 7)
print("int64 column:  outer returned", outer, "|", log, "| n =", col.tolist(), col.dtype)
inner = [x[1] for x in log if x[0] == "inner returned"]
if outer != [2] or inner != [[3, 4]]:
    bad.append("LABELS: outer/inner did not return [2] / [3, 4]   <- would be a C13 violation")
if col.isna().any() or str(col.dtype) != "int64":
    bad.append("newborns left uninitialised / column left promoted after a nested creation (robustness defect, no clause)")
outer, log, col = run("bool", False)
print("bool column:   outer returned", outer, "|", log, "| n =", col.tolist(), col.dtype)
mid = [x[1] for x in log if x[0].startswith("outer newborn")]
if mid and mid[0] is True:
    bad.append("bool column: the outer newborn's still-null cell became True through the inner initializer's whole-column "
               "cast (F-L class) before its own initializer ran")
for b in bad:
    print("PRESENT:", b)
sys.exit(1 if bad else 0)
