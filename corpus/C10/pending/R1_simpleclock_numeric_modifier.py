"""C10 robustness note 1 - SimpleClock + a numeric step-size modifier cannot run at all.

The step-size pipeline's source is `pd.Series(np.nan, index=idx).astype("timedelta64[ns]")` for EVERY clock plugin
(time.py setup).  With SimpleClock (plain numbers) any modifier that returns an int64/float64 Series makes
step_size_post_processor raise (TypeError: ufunc 'floor' ... / DTypePromotionError) at the first update, i.e. inside
initialize_simulants; returning an object Series with None holes gives an object column and a PopulationError.  The only
form that works is an object-dtype Series with np.nan holes on a FLOAT configuration.

Exit 1 while the crash is present, 0 once SimpleClock accepts numeric step modifiers.
usage: python R1_simpleclock_numeric_modifier.py [source root, default /repo/src]
"""
import sys, types
SRC = (sys.argv[1] if len(sys.argv) > 1 else "/repo/src").rstrip("/")
sys.path.insert(0, SRC)
_m = types.ModuleType("vivarium._version"); _m.__version__ = _m.version = "0+x"; sys.modules["vivarium._version"] = _m
import warnings; warnings.filterwarnings("ignore")
import pandas as pd
from vivarium import Component
from vivarium.framework.engine import SimulationContext

PLUG = {"required": {"clock": {"controller": "vivarium.framework.time.SimpleClock",
                               "builder_interface": "vivarium.framework.time.TimeInterface"}}}


class Mod(Component):
    def __init__(self, dtype):
        super().__init__(); self.dtype = dtype; self.times = []
    def setup(self, builder):
        builder.time.register_step_size_modifier(
            lambda idx: pd.Series([2 + (i % 2) for i in idx], index=idx, dtype=self.dtype))
    def on_time_step(self, event):
        self.times.append((event.time, list(event.index)))


bad = 0
for cfg_kind, time_cfg in (("int", {"start": 0, "end": 12, "step_size": 1}), ("float", {"start": 0.0, "end": 12.0, "step_size": 1.0})):
    for dtype in ("int64", "float64"):
        SimulationContext._clear_context_cache()
        comp = Mod(dtype)
        sim = SimulationContext(components=[comp], configuration={"population": {"population_size": 2}, "time": time_cfg},
                                plugin_configuration=PLUG, logging_verbosity=0)
        try:
            sim.setup(); sim.initialize_simulants(); sim.run()
            print(f"SimpleClock {cfg_kind} config, {dtype} modifier: ran, events {comp.times[:4]} ...")
        except Exception as e:
            bad = 1
            print(f"SimpleClock {cfg_kind} config, {dtype} modifier: {type(e).__name__}: {str(e)[:110]}")
print("DEFECT PRESENT: per-simulant step sizes are unusable with SimpleClock and numeric modifiers" if bad else "ok")
sys.exit(bad)
