"""C10 robustness note 3 - InteractiveContext.step(step_size=<nanosecond-resolution Timedelta>) crashes with
per-simulant clocks, although the same duration in microsecond resolution works.

pd.Timedelta(12, unit="h") / pd.Timedelta(hours=12) carry microsecond resolution in pandas 3; pd.Timedelta(43200 * 10**9,
unit="ns") (or any Timedelta produced by nanosecond arithmetic, e.g. `pd.Timedelta("12h") + pd.Timedelta(0, "ns")`)
carries nanosecond resolution and is EQUAL to it.  With the override the clock time becomes a ns-resolution Timestamp,
`time + step_size column` becomes datetime64[ns] and PopulationView.update refuses it:
"modifying the dtype of the next_event_time column from datetime64[us] to datetime64[ns]".

Exit 1 while equal step sizes behave differently, 0 once both work (or both are refused).
usage: python R3_interactive_step_ns_timedelta.py [source root, default /repo/src]
"""
import sys, types
SRC = (sys.argv[1] if len(sys.argv) > 1 else "/repo/src").rstrip("/")
sys.path.insert(0, SRC)
_m = types.ModuleType("vivarium._version"); _m.__version__ = _m.version = "0+x"; sys.modules["vivarium._version"] = _m
import warnings; warnings.filterwarnings("ignore")
import pandas as pd
from vivarium import Component
from vivarium.framework.engine import SimulationContext
from vivarium.interface.interactive import InteractiveContext

CFG = {"population": {"population_size": 3},
       "time": {"start": {"year": 2005, "month": 7, "day": 1}, "end": {"year": 2005, "month": 7, "day": 13}, "step_size": 1}}


class Mod(Component):
    def setup(self, builder):
        builder.time.register_step_size_modifier(
            lambda idx: pd.Series([pd.Timedelta(days=2 + (i % 2)) for i in idx], index=idx))
        self.clock = builder.time.clock()


def attempt(name, delta):
    SimulationContext._clear_context_cache()
    m = Mod()
    sim = InteractiveContext(components=[m], configuration=CFG, logging_verbosity=0)
    try:
        sim.step(); sim.step(step_size=delta); sim.step()
        print(f"{name}: ok, clock {m.clock()}")
        return None
    except Exception as e:
        print(f"{name}: {type(e).__name__}: {str(e)[:150]}")
        return type(e).__name__


us = pd.Timedelta(hours=12)
ns = pd.Timedelta(12 * 3600 * 10 ** 9, unit="ns")
assert us == ns
a = attempt(f"step_size={us!r} (unit {getattr(us, 'unit', '?')})", us)
b = attempt(f"step_size={ns!r} (unit {getattr(ns, 'unit', '?')})", ns)
bad = 1 if a != b else 0
print("DEFECT PRESENT: two equal step sizes, one works and one crashes" if bad else "ok")
sys.exit(bad)
