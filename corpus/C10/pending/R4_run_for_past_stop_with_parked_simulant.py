"""C10 robustness note 4 - stepping an InteractiveContext past the stop time after move_simulants_to_end makes the clock
stall or run BACKWARDS; run_for / run_until past the stop time then never return.

A simulant moved to the end gets step = stop + minimum - time at its next update.  At or before the stop time that is
positive (theorem C10_snoozed_not_before_end).  Past stop + minimum it is negative: next_event_time lies in the past,
the global step (min next - time) becomes negative and the clock moves backwards; exactly at stop + minimum it is zero
and (DateTimeClock, see R2) the clock stalls.  `InteractiveContext.run_for(d)` with clock + d beyond the stop time loops
forever in both cases.  Outside the stated property (events after the stop time), but a hang rather than an error.

This script uses bounded take_steps only.  Exit 1 while the clock can be observed moving backwards / stalling.
usage: python R4_run_for_past_stop_with_parked_simulant.py [source root, default /repo/src]
"""
import sys, types
SRC = (sys.argv[1] if len(sys.argv) > 1 else "/repo/src").rstrip("/")
sys.path.insert(0, SRC)
_m = types.ModuleType("vivarium._version"); _m.__version__ = _m.version = "0+x"; sys.modules["vivarium._version"] = _m
import warnings; warnings.filterwarnings("ignore")
import pandas as pd
from vivarium import Component
from vivarium.interface.interactive import InteractiveContext

CFG = {"population": {"population_size": 1},
       "time": {"start": {"year": 2005, "month": 7, "day": 1}, "end": {"year": 2005, "month": 7, "day": 2}, "step_size": 1}}


class Mod(Component):
    def setup(self, builder):
        builder.time.register_step_size_modifier(lambda idx: pd.Series(pd.Timedelta(days=1), index=idx))
        self.clock = builder.time.clock(); self.park = builder.time.move_simulants_to_end(); self.times = []
    def on_time_step(self, event):
        self.times.append(self.clock())
        if len(self.times) % 4 == 0:        # a move-to-end request every fourth step
            self.park(event.index)


m = Mod()
sim = InteractiveContext(components=[m], configuration=CFG, logging_verbosity=0)
bad = 0
try:
    sim.take_steps(12, with_logging=False)     # the stop time is reached after 1 step; the rest is "past the end"
except Exception as e:
    print("raised:", type(e).__name__, e)
ts = m.times
print("clock at successive steps:", [str(t) for t in ts])
if any(b <= a for a, b in zip(ts, ts[1:])):
    print("DEFECT PRESENT: the clock stalls or moves backwards past the stop time; run_for(8 days) would not return")
    bad = 1
sys.exit(bad)
