"""C10 robustness note 2 - the "Step size cannot be equal to zero" guard never fires for DateTimeClock.

SimulationClock.step_size (and standard_step_size) test `self._clock_step_size == 0`.  For SimpleClock the step is a
number and the guard works; for DateTimeClock it is a pd.Timedelta and `pd.Timedelta(0) == 0` is False, so a zero global
step is accepted: event_time == time, step_forward does not advance the clock, and `run()` (`while time < stop: step()`)
never terminates.  A zero step arises (a) from the configuration `time.step_size: 0`, (b) with per-simulant clocks when a
simulant moved to the end is updated exactly at stop + minimum (its step is stop + minimum - time = 0; only reachable by
stepping an InteractiveContext beyond the stop time).

This script does NOT call run(); it reads the public builder.time.step_size() and takes three manual steps.
Exit 1 while DateTimeClock accepts the zero step, 0 once it is refused like SimpleClock refuses it.
usage: python R2_zero_step_guard_datetimeclock.py [source root, default /repo/src]
"""
import sys, types
SRC = (sys.argv[1] if len(sys.argv) > 1 else "/repo/src").rstrip("/")
sys.path.insert(0, SRC)
_m = types.ModuleType("vivarium._version"); _m.__version__ = _m.version = "0+x"; sys.modules["vivarium._version"] = _m
import warnings; warnings.filterwarnings("ignore")
from vivarium import Component
from vivarium.framework.engine import SimulationContext

PLUG = {"required": {"clock": {"controller": "vivarium.framework.time.SimpleClock",
                               "builder_interface": "vivarium.framework.time.TimeInterface"}}}


class Probe(Component):
    def setup(self, builder):
        self.clock = builder.time.clock(); self.step_size = builder.time.step_size()


def attempt(name, time_cfg, plug):
    SimulationContext._clear_context_cache()
    p = Probe()
    sim = SimulationContext(components=[p], configuration={"population": {"population_size": 1}, "time": time_cfg},
                            plugin_configuration=plug, logging_verbosity=0)
    try:
        sim.setup(); sim.initialize_simulants()
        s = p.step_size()
        t0 = p.clock()
        for _ in range(3):
            sim.step()
        print(f"{name}: zero step ACCEPTED (step_size() = {s!r}); clock after 3 steps {p.clock()!r} (was {t0!r}) - run() would not terminate")
        return 1
    except ValueError as e:
        print(f"{name}: refused: {e}")
        return 0


r_simple = attempt("SimpleClock   step_size 0", {"start": 0, "end": 5, "step_size": 0}, PLUG)
r_dt = attempt("DateTimeClock step_size 0", {"start": {"year": 2005, "month": 7, "day": 1},
                                             "end": {"year": 2005, "month": 7, "day": 5}, "step_size": 0}, None)
bad = 1 if (r_dt or r_simple) else 0
print("DEFECT PRESENT: the zero-step guard does not protect DateTimeClock" if bad else "ok")
sys.exit(bad)
