"""PENDING TRIAGE (C19) - load("metadata.keyspace") is cached like any other key and goes stale.

Replay:  /venv/bin/python /verif/corpus/C19/pending/keyspace_load_stale.py      (exit 1 while the behaviour is there)

What happens: the reserved key is reported by artifact.keys and can be loaded; Artifact.load caches what it returns
(artifact.py 106-116).  Keys.append / Keys.remove / Keys.insert rewrite the keyspace NODE but nobody drops the cached copy,
so after a later write / remove the same handle keeps answering load("metadata.keyspace") with the key list as it was at
the first load; clear_cache() or a new Artifact give the current list.

Verdict (builder b-c19c20): NOT a violation of C19 as stated - nothing was "written under" the reserved key by the user,
artifact.keys (the reported keys), the file and a re-opened artifact stay in agreement, and the stale value is still a
loadable value - but a cache-coherence defect of the same family (the cached copy of a node the artifact itself rewrites).
Consequence for the model: Artifact.v returns [LoadedReserved] without content; modelling the content faithfully would
make clear_cache / re-opening OBSERVABLE (they refresh the stale list), i.e. C19_clear_reopen_neutral would have to exclude
loads of the reserved key.  Smallest repair: never cache the reserved key (or pop it from the cache in Keys.append /
remove / insert).  The check compares only the outcome (not the content) of loads of the reserved key.
"""
import os
import sys
import tempfile
import warnings

sys.path.insert(0, "/verif/harness")
import boot  # noqa: E402,F401
from vivarium.framework.artifact import Artifact  # noqa: E402

warnings.filterwarnings("ignore")
d = tempfile.mkdtemp(prefix="verif_c19_pending_")
path = os.path.join(d, "a.hdf")
try:
    a = Artifact(path)
    a.write("pop.structure", [1])
    first = list(a.load("metadata.keyspace"))
    a.write("pop.theta", [2])
    a.remove("pop.structure")
    stale = list(a.load("metadata.keyspace"))
    print("artifact.keys              :", a.keys)
    print("load('metadata.keyspace')  :", stale, "(first load gave", first, ")")
    print("fresh artifact loads       :", list(Artifact(path).load("metadata.keyspace")))
    a.clear_cache()
    print("after clear_cache          :", list(a.load("metadata.keyspace")))
    rc = 1 if sorted(stale) != sorted(a.keys) else 0
finally:
    import shutil
    shutil.rmtree(d, ignore_errors=True)
sys.exit(rc)
