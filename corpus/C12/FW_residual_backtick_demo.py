"""Residual of F-W after 8679fa8f (found by b-c12; NOT part of any check; run: /venv/bin/python <this file>).
A column whose name needs backticks and contains the WORD tracked (`tracked by`) still counts as "the query mentions
tracked" (\\btracked\\b matches inside the backticks): view ["age"] with query "`tracked by` >= 0" returns the untracked
simulant 1 (observed [0, 1, 2], expected [0, 2]).  The other two views (escaped quote, triple quotes) behave correctly.
The C12 generator uses identifier column names only.
"""
import sys; sys.path.insert(0, '/verif/harness')
import boot, pandas as pd
from vivarium import Component
from vivarium.interface.interactive import InteractiveContext
class P(Component):
    def setup(self, b):
        cols = ["age", "tracked by", "note"]
        self.v = b.population.get_view(cols)
        b.population.initializes_simulants(self.init, creates_columns=cols)
        self.views = {
          "backtick_space": b.population.get_view(["age"], "`tracked by` >= 0"),
          "escaped_quote":  b.population.get_view(["age"], "note != 'it\\'s' # x"),
          "triple":         b.population.get_view(["age"], "note != '''a''' # x"),
        }
        self.t = b.population.get_view(["tracked"])
    def init(self, d):
        self.v.update(pd.DataFrame({"age": [1, 2, 3], "tracked by": [0, 0, 0], "note": ["a", "b", "c"]}, index=d.index))
boot.reset_contexts()
p = P()
sim = InteractiveContext(components=[p], configuration={"population": {"population_size": 3}}, logging_verbosity=0)
p.t.update(pd.Series([False], index=pd.Index([1]), name="tracked"))
for k, v in p.views.items():
    try: print(k, repr(v.query), "->", list(v.get(pd.Index([0, 1, 2])).index))
    except Exception as e: print(k, repr(v.query), "ERR", type(e).__name__, str(e)[:80])
