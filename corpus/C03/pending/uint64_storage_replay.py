"""Stand-alone replay (C03 candidate, robustness): UNIQUE keys are refused for 64-bit unsigned key columns above 2**63.
      /venv/bin/python /verif/corpus/C03/uint64_storage_replay.py      (exit 1 = still refused)

Part 1 (one batch, nullable UInt64): keys 2**63+2**62, 2**63+2**62+2, 124 are distinct, but pandas 3.0.6
`Index.unique()` on a nullable UInt64 index returns two values, so IndexMap.update raises a false
`RandomnessError: Non-unique keys in index`.  numpy uint64 and nullable Int64 are fine.
Part 2 (two batches, mixed signedness):

A map whose ONE integer key column was registered as uint64 / UInt64 with distinct values above 2**63 is then offered
a batch whose key column is int64 (a different, unique key).  pandas joins the two index levels as float64 (resp.
Float64): 2**63+1 and 2**63+2 become the same float, and IndexMap.update refuses the batch although every key is
unique - `ValueError: cannot reindex on an axis with duplicate labels` (uint64) or a false
`RandomnessError: Non-unique keys in index` (UInt64).  The map itself is left untouched (no safety violation: positions
stay injective / stable), but registration of unique keys fails.  Same widths throughout, or uint8..uint64 batches, work.
"""
import sys
sys.path.insert(0, "/verif/harness")
import boot  # noqa: E402
import pandas as pd
from vivarium.framework.randomness.index_map import IndexMap

bad = False
for dt in ("UInt64", "uint64"):
    m = IndexMap(["uid"], size=200)
    vals = [2 ** 63 + 2 ** 62, 2 ** 63 + 2 ** 62 + 2, 124]
    try:
        m.update(pd.DataFrame({"uid": pd.array(vals, dtype=dt)}, index=[5, 0, 3]), 5)
        print(f"{dt:7s} one batch {vals}: accepted, positions {[int(x) for x in m[pd.Index([5, 0, 3])]]}")
    except Exception as e:
        bad = True
        print(f"{dt:7s} one batch {vals}: three unique keys REFUSED with {type(e).__name__}: {e}")
for first in ("uint64", "UInt64"):
    for second in ("int64", "uint8"):
        m = IndexMap(["uid"], size=1_000_000)
        m.update(pd.DataFrame({"uid": pd.array([2 ** 63 + 1, 2 ** 63 + 2, 2 ** 64 - 1], dtype=first)}, index=[0, 1, 2]), 5)
        before = [int(x) for x in m[pd.Index([0, 1, 2])]]
        try:
            m.update(pd.DataFrame({"uid": pd.array([7], dtype=second)}, index=[3]), 6)
            print(f"{first:7s} then {second:6s}: accepted, positions {[int(x) for x in m[pd.Index([0, 1, 2, 3])]]}")
        except Exception as e:
            bad = True
            after = [int(x) for x in m[pd.Index([0, 1, 2])]]
            print(f"{first:7s} then {second:6s}: unique key 7 REFUSED with {type(e).__name__}: {e}   (old positions untouched: {before == after})")
sys.exit(1 if bad else 0)
